"""C05 — CIDR summarisation is exact and minimal (cidr_merge, iprange_to_cidrs)."""
from harness import gens
from harness.wire import Exn

PROP = "C05"
THEOREM_FILE = "Props/C05.v"
EXTRA_THEOREM_FILES = ["Props/C05_src.v"]     # source tie: translated source = model (DESIGN 5.1b)
EXTRA_THEOREM_FILES.append("Props/C05_src_merge.v")     # (SRCE) source tie of cidr_merge / IPRange.cidrs
EXTRA_THEOREM_FILES.append("Props/C05_code.v")     # (CODA) code-level theorems: the property about the regenerated definitions
EXTRA_THEOREM_FILES.append("Props/C05_src_g.v")     # SRCG: iter_unique_ips (tie + the enumeration theorem)
RULE = ("iprange_to_cidrs: every (lo, hi) inside each small arena exhaustively (quick: sampled), boundary-aligned and "
        "random intervals of every (alignment of lo, alignment of hi, length) class at both ends of both address spaces, "
        "start/end given as addresses and as networks; cidr_merge: multisets of <=14 items from an arena in random order "
        "with duplicates, mixed kinds (IPNetwork with host bits, IPAddress, str, IPRange) and mixed families")
EXACT = ("c05_iprange_to_cidrs", "c05_cidr_merge")


def _net(t):
    import netaddr
    ver, v, p = t
    return netaddr.IPNetwork((v, p), version=ver)


def _nets(l):
    return [[n.version, n._value, n._prefixlen] for n in l]


def impl_iprange_to_cidrs(a, b):
    import netaddr
    s, e = _net(a), _net(b)
    w = gens.W[a[0]]
    out = _nets(netaddr.iprange_to_cidrs(s, e))
    # the same interval through the other entry points must give the same list
    if a[2] == w and b[2] == w and a[0] == b[0] and a[1] <= b[1]:
        r = netaddr.IPRange(netaddr.IPAddress(a[1], a[0]), netaddr.IPAddress(b[1], b[0]))
        alt = _nets(r.cidrs())
        assert alt == out, "IPRange.cidrs() differs from iprange_to_cidrs: %r vs %r" % (alt, out)
        alt2 = _nets(netaddr.iprange_to_cidrs(str(s.ip), str(e.ip)))
        assert alt2 == out, "string form differs"
        if a[0] == 4:
            gl = netaddr.iprange_to_globs(r._start, r._end)
            if len(gl) == 1:      # glob-shaped: the same interval through glob_to_cidrs and a re-assigned IPGlob
                assert _nets(netaddr.glob_to_cidrs(gl[0])) == out, "glob_to_cidrs differs from iprange_to_cidrs"
                g = netaddr.IPGlob("0.0.0.*")
                g.cidrs()
                g.glob = gl[0]
                assert _nets(g.cidrs()) == out, "IPGlob.cidrs() after assigning .glob differs from iprange_to_cidrs"
        assert _nets(r.cidrs()) == out, "IPRange.cidrs() is not repeatable"
    return out


def _item(it):
    import netaddr
    kind = it[0]
    if kind == "n":
        return netaddr.IPNetwork((it[2], it[3]), version=it[1])
    return netaddr.IPRange(netaddr.IPAddress(it[2], it[1]), netaddr.IPAddress(it[3], it[1]))


def impl_cidr_merge(items, forms=None):
    import netaddr
    objs = []
    for i, it in enumerate(items):
        o = _item(it)
        f = (forms[i] if forms else 0)
        if it[0] == "n":
            w = gens.W[it[1]]
            if f == 1:
                o = str(o)
            elif f == 2 and it[3] == w:
                o = netaddr.IPAddress(it[2], it[1])
            elif f == 3:      # 'address/netmask' text: the same network in another accepted notation
                o = "%s/%s" % (netaddr.IPAddress(it[2], it[1]), netaddr.IPAddress((1 << w) - (1 << (w - it[3])), it[1]))
            elif f == 4 and 0 < it[3] < w:      # 'address/hostmask' text (prefix 0 and full width are read as netmasks)
                o = "%s/%s" % (netaddr.IPAddress(it[2], it[1]), netaddr.IPAddress((1 << (w - it[3])) - 1, it[1]))
        objs.append(o)
    out = _nets(netaddr.cidr_merge(objs))
    import zlib
    form = zlib.crc32(repr(items).encode()) % 4
    if form:     # the same items as a tuple, a generator or a one-shot iterator
        alt = _nets(netaddr.cidr_merge(tuple(objs) if form == 1 else ((o for o in objs) if form == 2 else iter(objs))))
        assert alt == out, "cidr_merge depends on the container form"
    if all(it[0] == "n" for it in items) and len(items) <= 6:
        flat = [a for n in netaddr.cidr_merge(objs) for a in ([] if n.size > 64 else list(n))]
        if sum(n[2] >= gens.W[n[0]] - 6 for n in out) == len(out):
            uniq = [[a.version, int(a)] for a in netaddr.iter_unique_ips(*objs)]
            assert uniq == [[a.version, int(a)] for a in flat], "iter_unique_ips differs from flattening cidr_merge"
    return out


IMPL = {
    "c05_iprange_to_cidrs": impl_iprange_to_cidrs,
    "c05_cidr_merge": lambda items: impl_cidr_merge(items),
    "c05_cidr_merge_forms": lambda items, forms: impl_cidr_merge(items, forms),
}


# ---- oracle: independent minimal CIDR decomposition by integer arithmetic
def min_cidrs(ver, lo, hi):
    w = gens.W[ver]
    out = []
    while lo <= hi:
        k = (lo & -lo).bit_length() - 1 if lo else w
        while (1 << k) > hi - lo + 1:
            k -= 1
        out.append([ver, lo, w - k])
        lo += 1 << k
    return out


def union_intervals(ivs):
    res = []
    for ver, lo, hi in sorted(ivs):
        if res and res[-1][0] == ver and lo <= res[-1][2] + 1:
            res[-1][2] = max(res[-1][2], hi)
        else:
            res.append([ver, lo, hi])
    return res


def first_last(ver, v, p):
    w = gens.W[ver]
    h = 1 << (w - p)
    f = v - v % h
    return f, f + h - 1


def orc_range(args, res):
    a, b = args
    if a[0] != b[0]:
        return None if res == Exn("TypeError") else "mixed families must raise TypeError, got %r" % (res,)
    lo = first_last(*a)[0]
    hi = first_last(*b)[1]
    if lo > hi:
        return None   # the property only speaks about start <= end
    if isinstance(res, Exn):
        return "iprange_to_cidrs raised %s for a valid interval" % res.name
    exp = min_cidrs(a[0], lo, hi)
    if res != exp:
        return "not the minimal CIDR list of [%d, %d]" % (lo, hi)


def orc_merge(args, res):
    items = args[0]
    if isinstance(res, Exn):
        return "cidr_merge raised %s" % res.name
    ivs = []
    for it in items:
        if it[0] == "n":
            f, l = first_last(it[1], it[2], it[3])
        else:
            f, l = it[2], it[3]
        ivs.append((it[1], f, l))
    exp = [c for (ver, lo, hi) in union_intervals(ivs) for c in min_cidrs(ver, lo, hi)]
    if res != exp:
        return "cidr_merge result is not the unique minimal sorted CIDR list of the union"


ORACLE = {"c05_iprange_to_cidrs": orc_range, "c05_cidr_merge": orc_merge, "c05_cidr_merge_forms": orc_merge}


def arena_item(rng, arena, host_bits=True):
    ver, base, ap = arena
    w = gens.W[ver]
    span = 1 << (w - ap)
    if rng.random() < 0.25:
        s = base + rng.randrange(span)
        e = min(base + span - 1, s + rng.choice([0, 1, 2, 3, 7, 8, rng.randrange(span)]))
        return ["r", ver, s, e]
    p = rng.randint(ap, w)
    v = base + rng.randrange(span)
    if not host_bits or rng.random() < 0.6:
        v = v >> (w - p) << (w - p)
    return ["n", ver, v, p]


def cases(rng, tier):
    quick = tier == "quick"
    small = [a for a in gens.ARENAS if gens.W[a[0]] - a[2] <= 8 and gens.W[a[0]] - a[2] > 0]
    # exhaustive / sampled intervals inside the small arenas
    for ar in small:
        ver, base, ap = ar
        w = gens.W[ver]
        span = 1 << (w - ap)
        if span > 64:
            pairs = [(rng.randrange(span), rng.randrange(span)) for _ in range(300 if quick else 6000)]
            pairs = [(min(a, b), max(a, b)) for a, b in pairs]
        else:
            pairs = [(a, b) for a in range(span) for b in range(a, span)]
            if quick:
                pairs = rng.sample(pairs, 400)
        for a, b in pairs:
            yield ("c05_iprange_to_cidrs", [[ver, base + a, w], [ver, base + b, w]], "range_arena")
    # wide intervals by alignment classes
    for ver in (4, 6):
        w = gens.W[ver]
        mx = 2 ** w - 1
        n = 40 if quick else 600
        for ka in range(0, w + 1, 1 if not quick else 3):
            for _ in range(max(1, n // 40)):
                lo = (rng.getrandbits(w) >> ka << ka) + rng.choice([0, 0, 1, -1])
                kb = rng.randrange(w + 1)
                hi = (rng.getrandbits(w) >> kb << kb) + rng.choice([0, -1, -1, 1])
                lo, hi = max(0, min(lo, mx)), max(0, min(hi, mx))
                if lo > hi:
                    lo, hi = hi, lo
                yield ("c05_iprange_to_cidrs", [[ver, lo, w], [ver, hi, w]], "range_wide")
        # intervals that just cross an aligned boundary: lo aligned to 2^k, hi a little past lo + 2^k (and mirrored)
        for k in range(0, w):
            for _ in range(2 if quick else 12):
                base = (rng.getrandbits(w) >> (k + 1) << (k + 1)) if k + 1 < w else 0
                d = rng.choice([0, 1, 2, 3, rng.randrange(1 << min(k, 20)) if k else 0])
                lo, hi = base, min(mx, base + (1 << k) + d)
                yield ("c05_iprange_to_cidrs", [[ver, lo, w], [ver, hi, w]], "range_cross")
                lo2, hi2 = max(0, base + (1 << k) - 1 - d), min(mx, base + (2 << k) - 1)
                if lo2 <= hi2:
                    yield ("c05_iprange_to_cidrs", [[ver, lo2, w], [ver, hi2, w]], "range_cross")
                yield ("c05_cidr_merge", [[["n", ver, base, w - k], ["n", ver, min(mx, base + (1 << k)), w - min(k, 2)]]], "merge_cross")
        for lo, hi in [(0, mx), (0, 0), (mx, mx), (0, mx - 1), (1, mx), (1, mx - 1), (mx - 1, mx), (0, 1)]:
            yield ("c05_iprange_to_cidrs", [[ver, lo, w], [ver, hi, w]], "range_edge")
        # start / end given as networks (first of start .. last of end)
        for _ in range(60 if quick else 2000):
            _, v1, p1 = gens.rand_block(rng, ver)
            _, v2, p2 = gens.rand_block(rng, ver)
            if first_last(ver, v1, p1)[0] > first_last(ver, v2, p2)[1]:
                v1, p1, v2, p2 = v2, p2, v1, p1
            yield ("c05_iprange_to_cidrs", [[ver, v1, p1], [ver, v2, p2]], "range_nets")
    # start / end given as networks inside a small arena: nested, equal, adjacent and overlapping-by-nesting pairs
    # happen constantly (start inside end, end inside start, common first or last address), host bits included
    for ar in small:
        ver, base, ap = ar
        w = gens.W[ver]
        span = 1 << (w - ap)
        for _ in range(150 if quick else 4000):
            p1, p2 = rng.randint(ap, w), rng.randint(ap, w)
            v1, v2 = base + rng.randrange(span), base + rng.randrange(span)
            if rng.random() < 0.4:      # force overlap: v2 inside the block of v1
                h = 1 << (w - p1)
                v2 = (v1 - v1 % h) + rng.randrange(h)
            if first_last(ver, v1, p1)[0] > first_last(ver, v2, p2)[1]:
                v1, p1, v2, p2 = v2, p2, v1, p1
            yield ("c05_iprange_to_cidrs", [[ver, v1, p1], [ver, v2, p2]], "range_nets_arena")
    yield ("c05_iprange_to_cidrs", [[4, 1, 32], [6, 5, 128]], "range_mixed")
    # merges
    nm = 2500 if quick else 60000
    for _ in range(nm):
        k = rng.randint(0, 14)
        ars = rng.sample(small, rng.choice([1, 1, 1, 2, 3]))
        items = [arena_item(rng, rng.choice(ars)) for _ in range(k)]
        if items and rng.random() < 0.3:
            items += [rng.choice(items) for _ in range(rng.randint(1, 3))]
        rng.shuffle(items)
        if rng.random() < 0.5:
            yield ("c05_cidr_merge", [items], "merge")
        else:
            yield ("c05_cidr_merge_forms", [items, [rng.randrange(5) for _ in items]], "merge_forms")
    for _ in range(200 if quick else 5000):
        items = []
        for _ in range(rng.randint(1, 8)):
            ver, v, p = gens.rand_block(rng)
            items.append(["n", ver, v, p])
        yield ("c05_cidr_merge", [items], "merge_wide")
    # long inputs (hundreds to thousands of items): runs of consecutive hosts that merge upwards, scattered blocks of a /16,
    # duplicates, both families, shuffled -- a size-dependent fast path or batching bug needs inputs of this length
    for size in ([150, 400, 1100, 2600] if quick else [150, 400, 1100, 2600, 5000, 9000] * 3):
        items = []
        while len(items) < size:
            ver = rng.choice([4, 4, 6])
            w = gens.W[ver]
            base = rng.choice([0, (1 << w) - (1 << 16), rng.getrandbits(w - 16) << 16])
            kind = rng.randrange(4)
            if kind == 0:       # a run of consecutive hosts
                st = base + rng.randrange(1 << 16)
                for i in range(rng.randint(2, min(300, size))):
                    items.append(["n", ver, min(st + i, (1 << w) - 1), w])
            elif kind == 1:     # scattered small blocks (host bits kept)
                for _ in range(rng.randint(1, 60)):
                    items.append(["n", ver, base + rng.randrange(1 << 16), rng.randint(w - 10, w)])
            elif kind == 2:     # a range
                a, b = sorted((base + rng.randrange(1 << 16), base + rng.randrange(1 << 16)))
                items.append(["r", ver, a, b])
            else:               # duplicates of what is there
                items += [rng.choice(items) for _ in range(rng.randint(1, 20))] if items else []
        items = items[:size]
        rng.shuffle(items)
        yield ("c05_cidr_merge", [items], "merge_big")
    for ver in (4, 6):
        w = gens.W[ver]
        yield ("c05_cidr_merge", [[["n", ver, 0, 0]]], "merge_edge")
        # the two extreme prefixes in every textual notation (netmask text of /0 is all zeros, of /width all ones)
        for f in (1, 3):
            yield ("c05_cidr_merge_forms", [[["n", ver, 0, 0]], [f]], "merge_edge_forms")
            yield ("c05_cidr_merge_forms", [[["n", ver, 5, 0], ["n", ver, 2 ** w - 1, w]], [f, f]], "merge_edge_forms")
            yield ("c05_cidr_merge_forms", [[["n", ver, 2 ** w - 2, w], ["n", ver, 2 ** w - 1, w]], [f, 3]], "merge_edge_forms")
        yield ("c05_cidr_merge", [[["n", ver, 0, 1], ["n", ver, 2 ** (w - 1), 1]]], "merge_edge")
        yield ("c05_cidr_merge", [[["r", ver, 0, 2 ** w - 1], ["n", ver, 5, w]]], "merge_edge")


# ---- object-lifecycle checks (harness/lifecycle.py): objects with a history behave like fresh ones, results do not
# alias operands, failed mutators change nothing.  The functional model has no hidden state: its answer is "no discrepancy".
from harness import lifecycle as _life
IMPL.update(_life.IMPL)
ORACLE.update(_life.ORACLE)
EXACT = tuple(EXACT) + ("life",)
RULE = RULE + " | lifecycle: observe-mutate-observe vs a fresh object, aliasing of results, failure atomicity (glob, net, range)"
_cases_without_life = cases


def cases(rng, tier):
    yield from _cases_without_life(rng, tier)
    yield from _life.cases(rng, tier, {'glob', 'net', 'range'})
