"""C19 — IANA and IEEE registry lookups are exact with respect to the shipped data."""
import os
import re

from harness import gens
from harness.wire import Exn

PROP = "C19"
THEOREM_FILE = "Props/C19.v"
EXTRA_THEOREM_FILES = globals().get("EXTRA_THEOREM_FILES", [])
EXTRA_THEOREM_FILES.append("Props/C19_src.v")     # SRCF: source tie, translated source = model (DESIGN 5.1b)
EXTRA_THEOREM_FILES.append("Props/C19_src_b.v")     # SRCF: second part (OUI / IAB _parse_data, __str__)
EXTRA_THEOREM_FILES.append("Props/C19_code.v")      # CODC: the C19 index-parser theorems stated about the regenerated definitions
EXTRA_THEOREM_FILES.append("Props/C19_src_g.v")     # SRCG: iana.query / _within_bounds
EXTRA_THEOREM_FILES.append("Props/C19_src_g_eui.v")     # SRCG: OUI / IAB constructors (int) and small methods
EXTRA_THEOREM_FILES.append("Props/C19_src_g_idx.v")     # SRCG: ieee.load_index
EXTRA_THEOREM_FILES.append("Props/C19_src_g_load.v")     # SRCG: iana DictUpdater.update / MulticastParser.normalise_addr
RULE = ("iana_query: .info of addresses at first-1, first, first+1, last-1, last, last+1 of every record of both the "
        "IANA_INFO dump and the independent etree reading, boundary values of both families, random addresses "
        "(uniform, inside 224/4, inside 2000::/3); model = query over the generated IANA_INFO literal; oracle = etree "
        "reading.  oui_parse/iab_parse: generated well-formed registries (1-40 records, LF/CRLF/mixed/no final "
        "newline, header or not, duplicate identifiers, 0-6 address lines, odd whitespace) through the real parsers on "
        "a BytesIO; *_any: malformed stream (no record, non-hex tokens, 0x/sign/underscore tokens, two or no (base 16) "
        "lines, both markers on a line).  int16: every string of length<=4 over a 14-letter alphabet + random.  "
        "iab_shipped: model parser on the shipped iab.txt vs the loaded iab.idx.  iab_lookup/oui_lookup: IAB(k)/OUI(k) "
        "for index rows (all in thorough, sample in quick) and unregistered identifiers vs an independent re-read")
EXACT = ("oui_parse", "iab_parse")
TRUSTED = [
    "harness/gen/iana.py: the independent etree reading of the four IANA XML files (published semantics NNN/8, "
    "IPv6 prefix, a.b.c.d, a-b, a/p) and the assignment of record ids by (registry, first, last, occurrence), "
    "re-checked by iana_ids_coherent",
    "modelled, not verified: xml.sax parsing and the per-registry normalisers, csv, file I/O, importlib.resources, "
    "bytes/str decoding in OUI/IAB record retrieval (the model of _parse_data works on the UTF-8 bytes)",
]

REGCODE = {"IPv4": 0, "Multicast": 1, "IPv6": 2, "IPv6_unicast": 3}
HEX = b"(hex)"
B16 = b"(base 16)"


# ------------------------------------------------------------------ independent readings (cached per process)
_cache = {}


def spec_rows():
    """[(regcode, ver, first, last)] from the independent etree reading (harness/gen/iana.py)."""
    if "spec" not in _cache:
        from harness.gen import iana as g
        rows, _ = g.read_spec()
        code = {"IPv4": 0, "multicast": 1, "IPv6": 2, "IPv6_unicast": 3}
        _cache["spec"] = [(code[r], ver, a, b) for r, ver, a, b in rows]
    return _cache["spec"]


def eui_path(name):
    return os.path.join(os.environ.get("NV_REPO", "/repo"), "netaddr", "eui", name)


def shipped(name):
    """bytes of a shipped eui file"""
    if name not in _cache:
        with open(eui_path(name), "rb") as f:
            _cache[name] = f.read()
    return _cache[name]


def shipped_index(name):
    """independent reading of an .idx file: [(key, offset, size)] in file order, and {key: [(offset, size)]}"""
    if ("idx", name) not in _cache:
        rows = []
        for ln in shipped(name).decode("ascii").split("\n"):
            if ln == "":
                continue
            if not re.fullmatch(r"\d+,\d+,\d+\r?", ln):
                raise ValueError("unexpected index line %r" % ln)
            k, o, s = ln.strip().split(",")
            rows.append((int(k), int(o), int(s)))
        by = {}
        for k, o, s in rows:
            by.setdefault(k, []).append((o, s))
        _cache[("idx", name)] = (rows, by)
    return _cache[("idx", name)]


def split_lines(data):
    """what successive readline() calls return on a binary file"""
    out, i = [], 0
    while i < len(data):
        j = data.find(b"\n", i)
        j = len(data) if j < 0 else j + 1
        out.append(data[i:j])
        i = j
    return out


def lat(b):
    return b.decode("latin-1")


# ------------------------------------------------------------------ PART A: IANA
def quad(s):
    o = [int(x, 10) for x in s.split(".")]
    assert len(o) == 4 and all(0 <= x <= 255 for x in o), s
    return (o[0] << 24) | (o[1] << 16) | (o[2] << 8) | o[3]


def block_of_record(key, rec):
    """(first, last) a returned record describes, from the record's own text (plain arithmetic / stdlib only)."""
    import ipaddress
    if key == "IPv4":
        n, p = rec["prefix"].split("/")
        n, p = int(n), int(p)
        first = n << 24
        return [first - first % (1 << (32 - p)), first - first % (1 << (32 - p)) + (1 << (32 - p)) - 1]
    if key in ("IPv6", "IPv6_unicast"):
        n = ipaddress.IPv6Network(rec["prefix"], strict=False)
        return [int(n.network_address), int(n.broadcast_address)]
    a = rec["address"]
    if "-" in a:
        x, y = a.split("-")
        return [quad(x), quad(y)]
    return [quad(a), quad(a)]


def impl_iana_query(ver, v):
    import netaddr
    info = netaddr.IPAddress(v, ver).info
    out = []
    for key, recs in vars(info).items():
        out.append([REGCODE[key], [block_of_record(key, r) for r in recs]])
    return out


def orc_iana_query(args, res):
    ver, v = args
    if isinstance(res, Exn):
        return ".info raised %s" % res.name
    exp = {}
    for reg, rver, a, b in spec_rows():
        if rver == ver and a <= v <= b:
            exp.setdefault(reg, []).append([a, b])
    got = {}
    for reg, blocks in res:
        if reg in got:
            return "result key %d twice" % reg
        if not blocks:
            return "empty list under result key %d" % reg
        got[reg] = blocks
    for reg in sorted(set(exp) | set(got)):
        e, g = sorted(exp.get(reg, [])), sorted(got.get(reg, []))
        if e != g:
            missing = [x for x in e if x not in g]
            extra = [x for x in g if x not in e]
            return "registry %d: missing %r extra %r (published blocks containing the address: %r)" % (reg, missing, extra, e)


# ------------------------------------------------------------------ PART B: index parsers
def run_parser(cls_name, lines):
    import io
    from netaddr.eui import ieee
    from netaddr.core import Subscriber

    rows = []

    class Collect(Subscriber):
        def update(self, data):
            rows.append(list(data))

    data = b"".join(l.encode("latin-1") for l in lines)
    assert split_lines(data) == [l.encode("latin-1") for l in lines], "harness: argument is not a list of lines"
    p = getattr(ieee, cls_name)(io.BytesIO(data))
    p.attach(Collect())
    exn = None
    try:
        p.parse()
    except Exception as e:  # noqa
        from harness.wire import exn_of
        exn = exn_of(e)
    out = []
    for r in rows:
        r = [x.decode("latin-1") if isinstance(x, bytes) else x for x in r]
        out.append(r)
    return [out, exn]


def impl_oui_parse(lines):
    return run_parser("OUIIndexParser", lines)


def impl_iab_parse(lines):
    return run_parser("IABIndexParser", lines)


HEXTOK = re.compile(rb"[0-9A-Fa-f]+\Z")


def records_of(lines):
    """well-formedness as in the theorem, decided independently: -> (header, [record line lists]) or None"""
    starts = [i for i, l in enumerate(lines) if HEX in l]
    if not starts or any(l == b"" for l in lines):
        return None
    recs = [lines[a:b] for a, b in zip(starts, starts[1:] + [len(lines)])]
    return lines[:starts[0]], recs


def expected_key(kind, rec):
    """the identifier of a record, or None if the record is not of the published shape"""
    tok = rec[0].split()[0].replace(b"-", b"")
    if kind == "oui":
        return int(tok, 16) if HEXTOK.match(tok) else None
    b16 = [l for l in rec[1:] if B16 in l]
    if len(b16) != 1:
        return None
    suf = b16[0].split()[0].split(b"-")[0]
    if not HEXTOK.match(tok + suf):
        return None
    return int(tok + suf, 16) >> 12


def orc_parse(kind):
    def f(args, res):
        (slines,) = args
        lines = [l.encode("latin-1") for l in slines]
        wf = records_of(lines)
        if wf is None:
            return None
        hdr, recs = wf
        keys = [expected_key(kind, r) for r in recs]
        if any(k is None for k in keys):
            return None                      # not a well-formed registry: the property says nothing
        if isinstance(res, Exn):
            return "harness-level failure %s" % res.name
        rows, exn = res
        if exn is not None:
            return "parser raised %s on a well-formed registry" % exn.name
        if len(rows) != len(recs):
            return "%d rows for %d records" % (len(rows), len(recs))
        data = b"".join(lines)
        pos = sum(len(l) for l in hdr)
        for i, ((k, o, s), rec, key) in enumerate(zip(rows, recs, keys)):
            if o != pos:
                return "row %d starts at %r, record starts at %d" % (i, o, pos)
            if data[o:o + s] != b"".join(rec):
                return "row %d (offset %d size %r) does not delimit record %d (%d bytes)" % (i, o, s, i, len(b"".join(rec)))
            if k != key:
                return "row %d has key %r, record identifier is %r" % (i, k, key)
            pos = o + s
        if pos != len(data):
            return "last row ends at %d, file has %d bytes" % (pos, len(data))
    return f


def impl_int16(s):
    return int(s.encode("latin-1"), 16)


# ------------------------------------------------------------------ PART C: shipped index vs shipped text
def impl_iab_shipped(lines):
    """the loaded IAB_INDEX in file (= offset) order; the argument must be the shipped iab.txt"""
    from netaddr.eui import ieee
    data = b"".join(l.encode("latin-1") for l in lines)
    assert data == shipped("iab.txt"), "harness: argument is not the shipped iab.txt"
    rows = sorted(([k, o, s] for k, l in ieee.IAB_INDEX.items() for (o, s) in l), key=lambda r: (r[1], r[2], r[0]))
    return [rows, None]


def u8(s):
    return s.encode("utf-8").decode("latin-1")


def _same_or_same_exn(f, g, what):
    """f() and g() must both raise the same exception class or both return equal values"""
    def run(h):
        try:
            return ("ok", h())
        except Exception as e:  # noqa
            return ("exn", type(e).__name__)
    a, b = run(f), run(g)
    assert a == b, "%s: %r vs %r" % (what, a, b)


def _iab_rec(i):
    r = i.registration()
    return [r["idx"], u8(r["org"]), [u8(a) for a in r["address"]], r["offset"], r["size"]]


def impl_iab_lookup(k, rows):
    import netaddr, pickle
    # the same identifier written as hyphenated hex text (the other accepted argument form) must behave identically
    if 0 <= k < 2 ** 48:
        h = "%012X" % k
        text = "-".join(h[i:i + 2] for i in range(0, 12, 2))
        # upper case, lower case, mixed case and without the hyphens: hexadecimal text denotes the same identifier in any case
        for t in (text, text.lower(), "".join(c.lower() if n % 3 == 0 else c for n, c in enumerate(text)), h.lower()):
            _same_or_same_exn(lambda: _iab_rec(netaddr.IAB(k)), lambda: _iab_rec(netaddr.IAB(t)), "IAB(int) vs IAB(%r)" % t)
    i = netaddr.IAB(k)
    out = _iab_rec(i)
    j = pickle.loads(pickle.dumps(i))
    assert _iab_rec(j) == out and j == i and not (j != i) and int(j) == int(i) and str(j) == str(i), "IAB pickle round trip"
    if k >> 36:      # a 48-bit MAC inside the block: EUI(k).info carries the same IAB record and the OUI registration
        e = netaddr.EUI(k)
        assert e.is_iab() and _iab_rec(e.iab) == out, "EUI.iab differs from IAB(k)"
        try:
            inf = e.info
        except Exception as x:  # the OUI text is not shipped on every tree; then OUI lookup must fail the same way directly
            _same_or_same_exn(lambda: netaddr.EUI(k).info, lambda: netaddr.OUI(k >> 24).registration(), "EUI.info vs OUI")
        else:
            r = inf["IAB"]
            assert [r["idx"], u8(r["org"]), [u8(a) for a in r["address"]], r["offset"], r["size"]] == out, "EUI.info['IAB']"
    return out


def _oui_recs(o):
    assert o.reg_count == len(o.records)
    out = []
    for i in range(o.reg_count):
        r = o.registration(i)
        out.append([r["idx"], u8(r["org"]), [u8(a) for a in r["address"]], r["offset"], r["size"]])
    return out


def impl_oui_lookup(k, rows):
    import netaddr, pickle
    if 0 <= k <= 0xFFFFFF:
        h = "%06X" % k
        text = "-".join((h[0:2], h[2:4], h[4:6]))
        for t in (text, text.lower(), "".join(c.lower() if n % 3 == 0 else c for n, c in enumerate(text)), h.lower()):
            _same_or_same_exn(lambda: _oui_recs(netaddr.OUI(k)), lambda: _oui_recs(netaddr.OUI(t)), "OUI(int) vs OUI(%r)" % t)
    o = netaddr.OUI(k)
    out = _oui_recs(o)
    q = pickle.loads(pickle.dumps(o))
    assert _oui_recs(q) == out and q == o and not (q != o) and int(q) == int(o) and str(q) == str(o), "OUI pickle round trip"
    assert o == k and o == str(o) and not (o != k), "OUI equality with its int / text form"
    e = netaddr.EUI(k << 24)
    assert _oui_recs(e.oui) == out, "EUI.oui differs from OUI(k)"
    # the registry lookup of an address does not depend on how the address prints: every dialect (16-, 24-, 48-bit words), EUI-64 too
    for d in (netaddr.mac_cisco, netaddr.mac_bare, netaddr.mac_pgsql, netaddr.mac_unix):
        assert _oui_recs(netaddr.EUI(k << 24, dialect=d).oui) == out, "EUI(.., dialect=%s).oui differs from OUI(k)" % d.__name__
    for d in (netaddr.eui64_cisco, netaddr.eui64_bare, netaddr.eui64_base):
        assert _oui_recs(netaddr.EUI(k << 40, version=64, dialect=d).oui) == out, "EUI-64(.., dialect=%s).oui differs from OUI(k)" % d.__name__
    if not e.is_iab():
        r = e.info["OUI"]
        assert [r["idx"], u8(r["org"]), [u8(a) for a in r["address"]], r["offset"], r["size"]] == out[0], "EUI.info['OUI']"
    return out


def iab_resolve(k):
    """the 36-bit IAB an integer argument denotes (36-bit form or 48-bit MAC form), else None"""
    if (k >> 12) in (0x0050C2, 0x40D855):
        return k
    if (k >> 24) in (0x0050C2, 0x40D855):
        return k >> 12
    return None


def index_rows(kind, key):
    """independent re-read: the index rows of an identifier with the bytes of the registry text they delimit"""
    _, by = shipped_index(kind + ".idx")
    text = shipped(kind + ".txt")
    return [[o, s, lat(text[o:o + s])] for o, s in by.get(key, [])]


HEXLINE = re.compile(rb"^[ \t]*([0-9A-F]{2})-([0-9A-F]{2})-([0-9A-F]{2})[ \t]+\(hex\)[ \t]+(\S.*?)[ \t\r]*$")
B16LINE = re.compile(rb"^[ \t]*([0-9A-F]{6})-([0-9A-F]{6})[ \t]+\(base 16\)[ \t]+(\S.*?)[ \t\r]*$")


def slice_is_record(kind, key, o, s):
    """None if text[o:o+s] is exactly one record of identifier `key`, else what is wrong; also -> (org, address)"""
    text = shipped(kind + ".txt")
    if not (0 <= o and 0 < s and o + s <= len(text)):
        return "row (%d, %d) is outside the registry text (%d bytes)" % (o, s, len(text)), None
    if o > 0 and text[o - 1:o] != b"\n":
        return "row does not start at a line start", None
    sl = text[o:o + s]
    at_eof = (o + s == len(text))
    if not at_eof:
        e = text.find(b"\n", o + s)
        nxt = text[o + s:(len(text) if e < 0 else e + 1)]
        if HEX not in nxt:
            return "the text after the row does not start a new record", None
    if not (sl.endswith(b"\n") or at_eof):
        return "row ends inside a line", None
    ls = sl.split(b"\n")
    m = HEXLINE.match(ls[0])
    if not m:
        return "first line of the row is not a (hex) line: %r" % ls[0][:60], None
    if any(HEX in l for l in ls[1:]):
        return "row spans more than one record", None
    prefix = int(m.group(1) + m.group(2) + m.group(3), 16)
    if kind == "oui":
        ident = prefix
    else:
        b = [B16LINE.match(l) for l in ls[1:] if B16 in l]
        if len(b) != 1 or not b[0]:
            return "record without a single well-formed (base 16) line", None
        lo, hi = int(b[0].group(1), 16), int(b[0].group(2), 16)
        if lo & 0xFFF or hi != lo + 0xFFF:
            return "(base 16) line is not a 12-bit block", None
        ident = ((prefix << 24) | lo) >> 12
    if ident != key:
        return "record identifier is %#x, index key is %#x" % (ident, key), None
    org = m.group(4)
    address = []
    for l in ls[1:]:
        t = l.strip(b" \t\r\n\x0b\x0c")
        if t and B16 not in l:
            address.append(t)
    return None, (org, address)


def orc_iab_lookup(args, res):
    k, _ = args
    key = iab_resolve(k)
    if key is None:
        return None if res == Exn("ValueError") else "IAB(%#x) did not raise ValueError: %r" % (k, res)
    _, by = shipped_index("iab.idx")
    rows = by.get(key, [])
    if not rows:
        return None if res == Exn("NotRegisteredError") else "IAB %#x has no index row but lookup gave %r" % (key, res)
    if isinstance(res, Exn):
        return "IAB %#x has index rows but lookup raised %s" % (key, res.name)
    idx, org, address, o, s = res
    if (o, s) != rows[0]:
        return "lookup used row %r, the index says %r" % ((o, s), rows[0])
    bad, rec = slice_is_record("iab", key, o, s)
    if bad:
        return bad
    if idx != key or org.encode("latin-1") != rec[0] or [a.encode("latin-1") for a in address] != rec[1]:
        return "lookup returned %r, the record says %r" % ((idx, org, address), (key, rec))


def orc_oui_lookup(args, res):
    k, _ = args
    if not 0 <= k <= 0xFFFFFF:
        return None if res == Exn("ValueError") else "OUI(%r) did not raise ValueError" % k
    _, by = shipped_index("oui.idx")
    rows = by.get(k, [])
    if not rows:
        return None if res == Exn("NotRegisteredError") else "OUI %#x has no index row but lookup gave %r" % (k, res)
    if isinstance(res, Exn):
        return "OUI %#x has index rows but lookup raised %s" % (k, res.name)
    if [(r[3], r[4]) for r in res] != rows:
        return "lookup used rows %r, the index says %r" % ([(r[3], r[4]) for r in res], rows)
    text = shipped("oui.txt")
    for (idx, org, address, o, s) in res:
        if o + s > len(text):
            # the registry text is shipped empty/truncated: nothing to compare (the record stays at its defaults)
            if (idx, org, address) != (0, "", []) and o >= len(text):
                return "record content without registry text: %r" % ((idx, org, address),)
            continue
        bad, rec = slice_is_record("oui", k, o, s)
        if bad:
            return bad
        if idx != k or org.encode("latin-1") != rec[0] or [a.encode("latin-1") for a in address] != rec[1]:
            return "lookup returned %r, the record says %r" % ((idx, org, address), (k, rec))


def orc_iab_shipped(args, res):
    """every row of the loaded index delimits exactly one record with that identifier; rows cover all records"""
    if isinstance(res, Exn):
        return "harness-level failure %s" % res.name
    rows, _ = res
    text = shipped("iab.txt")
    pos = None
    for k, o, s in rows:
        bad, _rec = slice_is_record("iab", k, o, s)
        if bad:
            return "index row (%d,%d,%d): %s" % (k, o, s, bad)
        if pos is not None and o != pos:
            return "index rows do not abut at %d" % o
        pos = o + s
    first = next((i for i, l in enumerate(split_lines(text)) if HEX in l), None)
    if first is None or not rows:
        return "no record / no row"
    if rows[0][1] != sum(len(l) for l in split_lines(text)[:first]):
        return "first row does not start at the first record"
    if pos != len(text):
        return "last row ends at %d, text has %d bytes" % (pos, len(text))
    idx_rows, _ = shipped_index("iab.idx")
    if sorted(idx_rows, key=lambda r: r[1]) != [tuple(r) for r in rows]:
        return "loaded IAB_INDEX differs from iab.idx"


IMPL = {
    "iab_shipped": impl_iab_shipped, "iab_lookup": impl_iab_lookup, "oui_lookup": impl_oui_lookup,
    "iana_query": impl_iana_query,
    "oui_parse": impl_oui_parse, "oui_parse_any": impl_oui_parse,
    "iab_parse": impl_iab_parse, "iab_parse_any": impl_iab_parse,
    "int16": impl_int16,
}
ORACLE = {
    "iab_shipped": orc_iab_shipped, "iab_lookup": orc_iab_lookup, "oui_lookup": orc_oui_lookup,
    "iana_query": orc_iana_query,
    "oui_parse": orc_parse("oui"), "oui_parse_any": orc_parse("oui"),
    "iab_parse": orc_parse("iab"), "iab_parse_any": orc_parse("iab"),
}


# ------------------------------------------------------------------ generators
def iana_points(rng, tier):
    from harness.gen import iana as g
    impl_rows, spec, _ = g.tables()
    pts = set()
    blocks = set()
    for reg, rid, ver, a, b in spec:
        blocks.add((ver, a, b))
    for reg, kind, ver, x, y, first, last in g.read_impl():
        blocks.add((ver, first, last))
    for ver, a, b in blocks:
        for c in (a - 1, a, a + 1, b - 1, b, b + 1, (a + b) // 2):
            if 0 <= c <= gens.maxint(ver):
                pts.add((ver, c))
    for ver in (4, 6):
        for v in gens.values(rng, ver, 300 if tier == "quick" else 20000):
            pts.add((ver, v))
    n = 600 if tier == "quick" else 40000
    for _ in range(n):
        r = rng.random()
        if r < 0.35:     # inside 224/4, dense low part
            k = rng.choice((8, 12, 16, 24, 28))
            pts.add((4, (0xE << 28) | rng.getrandbits(k) | (rng.getrandbits(28) & rng.choice((0, 0xFFFFF00, 0xFF00000)))))
        elif r < 0.5:
            pts.add((4, (rng.choice((223, 224, 232, 233, 234, 239, 240)) << 24) | rng.getrandbits(rng.choice((4, 8, 16, 24)))))
        elif r < 0.8:    # 2000::/3 and the unicast assignments
            pts.add((6, (0x2001 << 112) | (rng.getrandbits(16) << 96) | rng.getrandbits(rng.choice((0, 8, 96)))))
        else:
            pts.add((6, (rng.choice((0x2, 0x3, 0x20, 0x26, 0x2a, 0x2c, 0xfc, 0xfe, 0xff)) << rng.choice((120, 124, 125)))
                     | rng.getrandbits(rng.choice((8, 64, 120)))))
    out = sorted(p for p in pts if 0 <= p[1] <= gens.maxint(p[0]))
    rng.shuffle(out)
    return out


TERMS = [b"\n", b"\r\n"]
WS = [b" ", b"  ", b"\t", b"   ", b" \t ", b"\x0b", b"\x0c", b"                         "]
ORGS = [b"ACME CORPORATION", b"X", b"Soci\xe9t\xe9 G\xe9n\xe9rale", b"A (base 16) B", b"1 MAIN STREET", b"a-b-c  d", b"\xc2\xa0Nbsp",
        b"IEEE REGISTRATION AUTHORITY", b"(he x)", b"hex", b"( hex )"]
ADDRS = [b"1 MAIN STREET", b"SPRINGFIELD", b"UNITED STATES", b"", b"   ", b"\t", b"Suite 5  NY  10001", b"DE", b"\r", b"0x10",
         b"Stra\xc3\x9fe 7"]


def gen_registry(rng, kind, malformed=False):
    """-> list of lines (bytes)"""
    mode = rng.choice(("lf", "crlf", "mixed"))

    def term():
        if mode == "lf":
            return b"\n"
        if mode == "crlf":
            return b"\r\n"
        return rng.choice(TERMS)

    lines = []
    if rng.random() < 0.6:
        for _ in range(rng.randint(1, 5)):
            h = rng.choice([b"OUI/MA-L" + rng.choice(WS) + b"Organization", b"company_id" + rng.choice(WS) + b"Organization",
                            rng.choice(WS) + b"Address", b"", b"  ", b"IAB Range   Organization", b"(base 16)", b"(HEX)", b"hex"])
            lines.append(h + term())
    nrec = rng.choice((1, 1, 2, 3, rng.randint(1, 40)))
    pool = []
    for _ in range(nrec):
        if pool and rng.random() < 0.25:
            ident = rng.choice(pool)                  # duplicate identifier
        else:
            ident = rng.getrandbits(24) if rng.random() < 0.8 else rng.choice((0, 1, 0xFFFFFF, 0x0050C2, 0x40D855, 0x100000))
            pool.append(ident)
        h = "%06X" % ident
        if rng.random() < 0.15:
            h = h.lower()
        tok = ("%s-%s-%s" % (h[0:2], h[2:4], h[4:6])).encode()
        r = rng.random()
        if r < 0.05:
            tok = h.encode()                           # no hyphens
        elif r < 0.08:
            tok = tok[:2] + b"--" + tok[3:]
        org = rng.choice(ORGS)
        lead = rng.choice((b"", b"", b"", b" ", b"\t", b"  "))
        lines.append(lead + tok + rng.choice(WS) + HEX + rng.choice(WS) + org + rng.choice((b"", b"  ", b"   \t")) + term())
        sub = rng.getrandbits(12)
        b16tok = ("%03X000-%03XFFF" % (sub, sub)).encode() if kind == "iab" else h.upper().encode()
        if kind == "iab" and rng.random() < 0.1:
            b16tok = ("%03X000" % sub).encode()
        b16line = lead + b16tok + rng.choice(WS) + B16 + rng.choice(WS) + org + term()
        pre = []
        if rng.random() < 0.12:
            pre = [rng.choice(WS) + rng.choice(ADDRS) + term() for _ in range(rng.randint(1, 2))]
        post = [rng.choice(WS) + rng.choice(ADDRS) + term() for _ in range(rng.choice((0, 1, 2, 3, 3, 4, 6)))]
        if rng.random() < 0.7:
            post.append(term())
        if kind == "oui" and rng.random() < 0.15:
            lines.extend(pre + post)                   # OUI record without its (base 16) line
        else:
            lines.extend(pre + [b16line] + post)
    if rng.random() < 0.3:                             # no trailing newline
        last = lines[-1]
        stripped = last.rstrip(b"\r\n")
        if stripped:
            lines[-1] = stripped
        elif len(lines) > 1 and HEX not in last:
            lines.pop()
            lines[-1] = lines[-1].rstrip(b"\r\n") or lines[-1]
    data = b"".join(lines)
    if malformed:
        data = corrupt(rng, kind, data)
    return split_lines(data)


BADTOKS = [b"(hex)", b"0x1F", b"0X_1f", b"+12-34-56", b"1_2-3_4", b"1__2", b"_12", b"12_", b"GG-00-00", b"---", b"-", b"0x", b"0x_",
           b"-12", b"00-50-C2-", b"\xff\xfe", b"12\x0034", b"00-CA-FE-00", b"0", b"00000000000000000000000001", b"1\x1c2", b"+", b"+0x10",
           b"0_0", b"0b11", b"0o7", b"x10", b"00-50-c2"]


def corrupt(rng, kind, data):
    lines = split_lines(data)
    for _ in range(rng.randint(1, 3)):
        r = rng.random()
        if r < 0.15:
            return rng.choice((b"", b"\n", b"header\nonly\n", b"\r\n\r\n", b"(base 16)\n", b" \n(hex", b"(hex)", b"(hex)\n", b"  (hex)  \n",
                               b"(base 16) (hex)\n", b"00-00-01 (hex) a\n(base 16)\n", b"\x0c(hex)\x0b\n"))
        if not lines:
            return data
        i = rng.randrange(len(lines))
        l = lines[i]
        if r < 0.45 and (HEX in l or B16 in l):       # replace the first token
            parts = l.split(None, 1)
            if len(parts) == 2:
                lines[i] = rng.choice(BADTOKS) + b" " + parts[1]
        elif r < 0.6:
            lines.insert(i, rng.choice((b"ABC000-ABCFFF (base 16) X\n", b"(base 16)\n", b"zz (base 16)\r\n", b"00-00-02 (hex) (base 16)\n",
                                        b"(hex)(base 16)\n", b"\t(base 16) 12\n")))
        elif r < 0.7:
            del lines[i]
        elif r < 0.8:
            lines[i] = l.replace(b"(base 16)", rng.choice((b"(base16)", b"(BASE 16)", b"(hex)")))
        elif r < 0.9:
            lines[i] = l.replace(b"(hex)", rng.choice((b"(Hex)", b"(hex", b"(hex)(hex)", b"")))
        else:
            lines[i] = l.replace(b"\n", b"") if rng.random() < 0.5 else l.replace(b" ", b"\r", 1)
    return b"".join(lines)


def int16_cases(rng, tier):
    import itertools
    alpha = "01aFgxX_+-"
    for n in range(0, 5 if tier == "quick" else 6):
        for t in itertools.product(alpha, repeat=n):
            yield "".join(t)
    for _ in range(300 if tier == "quick" else 5000):
        yield "".join(rng.choice("0123456789abcdefABCDEFxX_+-gG\x00\xff()") for _ in range(rng.randint(1, 14)))


def ieee_cases(rng, tier):
    text = shipped("iab.txt")
    if text:
        yield ("iab_shipped", [[lat(l) for l in split_lines(text)]], "iab_shipped")
    for kind in ("iab", "oui"):
        rows, by = shipped_index(kind + ".idx")
        keys = list(by)
        if tier == "quick":
            sample = rng.sample(keys, min(len(keys), 400))
            sample += [k for k in keys if len(by[k]) > 1][:20]
        else:
            sample = keys
        unreg = set()
        for k in rng.sample(keys, min(len(keys), 150 if tier == "quick" else 3000)):
            unreg.update((k - 1, k + 1))
        width = 36 if kind == "iab" else 24
        for _ in range(150 if tier == "quick" else 3000):
            if kind == "iab":
                unreg.add((rng.choice((0x0050C2, 0x40D855)) << 12) | rng.getrandbits(12))
            else:
                unreg.add(rng.getrandbits(24))
        unreg.update((0, 1, 2 ** width - 1))
        for k in sample + sorted(unreg):
            if kind == "iab":
                if k < 0:
                    continue
                key = iab_resolve(k)
                yield ("iab_lookup", [k, index_rows("iab", key) if key is not None else []], "iab_lookup")
                if key is not None and rng.random() < 0.2:       # 48-bit MAC form with user bits
                    yield ("iab_lookup", [(key << 12) | rng.getrandbits(12), index_rows("iab", key)], "iab_lookup_mac")
            else:
                yield ("oui_lookup", [k, index_rows("oui", k) if 0 <= k <= 0xFFFFFF else []], "oui_lookup")
        if kind == "iab":
            for k in (0x0050C3000, 0x40D856FFF, 0x0050C1FFF, 2 ** 48 - 1, 0x0050C2 << 24, (0x0050C2 << 24) - 1, 0x40D855FFFFFF, 0x40D856000000):
                key = iab_resolve(k)
                yield ("iab_lookup", [k, index_rows("iab", key) if key is not None else []], "iab_lookup_edge")
        else:
            for k in (-1, 2 ** 24, 2 ** 24 + 5):
                yield ("oui_lookup", [k, []], "oui_lookup_edge")


def cases(rng, tier):
    for c in ieee_cases(rng, tier):
        yield c
    for ver, v in iana_points(rng, tier):
        yield ("iana_query", [ver, v], "iana_v%d" % ver)
    nreg = 600 if tier == "quick" else 25000
    for kind in ("oui", "iab"):
        for _ in range(nreg):
            yield (kind + "_parse", [[lat(l) for l in gen_registry(rng, kind)]], kind + "_registry")
        for _ in range(nreg):
            yield (kind + "_parse_any", [[lat(l) for l in gen_registry(rng, kind, malformed=True)]], kind + "_malformed")
    for s in int16_cases(rng, tier):
        yield ("int16", [s], "int16")


# ---- object-lifecycle checks (harness/lifecycle.py): .info of an address with a history equals .info of a fresh one
from harness import lifecycle as _life
IMPL.update(_life.IMPL)
ORACLE.update(_life.ORACLE)
EXACT = tuple(EXACT) + ("life",)
RULE = RULE + " | lifecycle: observe-mutate-observe vs a fresh object (incl. .info), aliasing, failure atomicity (addr)"
_cases_without_life = cases


def cases(rng, tier):
    yield from _cases_without_life(rng, tier)
    yield from _life.cases(rng, tier, {"addr"})
