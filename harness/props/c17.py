"""C17 — glob and nmap range notations denote exactly their address sets."""
import re
import socket
import struct

from harness import gens, pystr_cases
from harness.wire import Exn

PROP = "C17"
THEOREM_FILE = "Props/C17.v"
EXTRA_THEOREM_FILES = ["Props/C17_src.v", "Props/C17_src_nmap.v", "Props/C17_src_closed.v"]     # source tie: translated source = model (DESIGN 5.1b)
EXTRA_THEOREM_FILES.append("Props/C17_code.v")   # CODB: code-level theorems (the C17 theorems stated about the regenerated definitions)
EXTRA_THEOREM_FILES.append("Props/C17_src_g.v")     # SRCG: IPGlob.__repr__
RULE = ("glob strings: every field shape (k plain octets, optional hyphen octet, asterisks) x boundary octets "
        "(0,1,9,10,99,100,199,200,249,250,255,256), ill-shaped field orders, 3/5 fields, leading-zero / sign / space / "
        "underscore numerals, all single edits and sampled double edits of valid globs over '0-9 . * - space + _', random "
        "strings; iprange_to_globs / to_cidrs: every lo<=hi of the small IPv4 arenas, octet-boundary-aligned random "
        "intervals, glob-shaped intervals and their +-1 neighbours; cidr_to_glob: every prefix x boundary values; nmap: "
        "grammar-generated specs (lists, ranges, open ends, overlaps, duplicates, lenient numerals, CIDR incl. partial "
        "addresses, IPv6) with at most 4096 addresses by construction and near-valid mutations; the Python-builtin "
        "prelude cases of harness/pystr_cases.py")
EXACT = ("valid_glob", "glob_to_iptuple", "glob_to_iprange", "cidr_to_glob", "nmap_octets", "pton4") + pystr_cases.EXACT
TRUSTED = [
    "IPAddress(text)/inet_pton(AF_INET6) results used by the nmap ':' and IPv6-CIDR branches are parameters of the "
    "model (Section variables); the harness supplies the answers of the platform's socket.inet_aton/inet_pton "
    "(general address parsing is property C01)",
    "iprange_to_cidrs is a parameter of the glob model (property C05); the executable instance used for the "
    "correspondence (maximal aligned trie blocks; proved to meet the assumed specification, C17_to_cidrs_exec) is "
    "compared with the real iprange_to_cidrs on every run (cmd to_cidrs)",
]

M32 = 2 ** 32 - 1


# ------------------------------------------------------------------ implementation adapters
def _state(g):
    return [g._start._value, g._end._value, getattr(g, "_glob", None)]


def impl_valid_glob(s):
    from netaddr.ip.glob import valid_glob
    r = valid_glob(s)
    assert r is True or r is False
    return r


def impl_glob_to_iptuple(s):
    from netaddr.ip.glob import glob_to_iptuple
    a, b = glob_to_iptuple(s)
    assert a.version == 4 and b.version == 4
    return [a._value, b._value]


def impl_glob_to_iprange(s):
    from netaddr.ip.glob import glob_to_iprange
    r = glob_to_iprange(s)
    assert r.version == 4 and r._start.version == 4 and r._end.version == 4
    return [r.first, r.last]


def impl_to_cidrs(lo, hi):
    import netaddr
    cs = netaddr.iprange_to_cidrs(netaddr.IPAddress(lo, 4), netaddr.IPAddress(hi, 4))
    assert all(c.version == 4 for c in cs)
    return [[c._value, c._prefixlen] for c in cs]


def impl_iprange_to_globs(sv, s, ev, e):
    import netaddr
    from netaddr.ip.glob import iprange_to_globs
    out = list(iprange_to_globs(netaddr.IPAddress(s, sv), netaddr.IPAddress(e, ev)))
    if sv == 4 and ev == 4:
        # the same bounds as dotted strings and as plain integers must give the same globs
        alt = list(iprange_to_globs(str(netaddr.IPAddress(s, 4)), str(netaddr.IPAddress(e, 4))))
        assert alt == out, "string bounds give %r, IPAddress bounds %r" % (alt, out)
        alt2 = list(iprange_to_globs(s, e))
        assert alt2 == out, "integer bounds give %r, IPAddress bounds %r" % (alt2, out)
    return out


def impl_glob_to_cidrs(s):
    from netaddr.ip.glob import glob_to_cidrs
    cs = glob_to_cidrs(s)
    assert all(c.version == 4 for c in cs)
    return [[c._value, c._prefixlen] for c in cs]


def impl_cidr_to_glob(ver, v, p):
    import netaddr
    from netaddr.ip.glob import cidr_to_glob
    return cidr_to_glob(netaddr.IPNetwork((v, p), version=ver))


def impl_ipglob(s):
    import pickle
    from netaddr.ip.glob import IPGlob
    from harness.wire import exn_of
    g = IPGlob(s)
    assert g.version == 4
    try:
        st = str(g)
    except Exception as ex:  # noqa
        st = exn_of(ex)
    gs = list(g.__getstate__())
    try:
        g2 = pickle.loads(pickle.dumps(g))
        rt = _state(g2)
    except Exception as ex:  # noqa
        rt = exn_of(ex)
    return [_state(g), st, gs, rt]


def impl_ipglob_set(s, s2):
    from netaddr.ip.glob import IPGlob
    from harness.wire import exn_of
    g = IPGlob(s)
    e = None
    # read every derived view once before the assignment (anything cached must not survive it)
    _ = (g.cidrs(), g.size, g.first, g.last, g.key(), g.sort_key(), str(g), hash(g), g[0], g[-1])
    try:
        g.glob = s2
    except Exception as ex:  # noqa
        e = exn_of(ex)
    cid = [[c._value, c._prefixlen] for c in g.cidrs()]
    assert (g.first, g.last) == (g._start._value, g._end._value) and int(g[0]) == g.first and int(g[-1]) == g.last
    assert g.key() == (4, g.first, g.last) and hash(g) == hash(g.key())
    return [_state(g), e, cid, g.size]


def impl_ipglob_setstate(s, e, ver):
    from netaddr.ip.glob import IPGlob
    g = IPGlob.__new__(IPGlob)
    g.__setstate__((s, e, ver))
    return _state(g)


def platform_pton4(s):
    try:
        return struct.unpack(">I", socket.inet_pton(socket.AF_INET, s))[0]
    except Exception:  # noqa
        return None


def impl_pton4(s):
    r = platform_pton4(s)
    if r is not None:
        # default-mode parsing (inet_aton) agrees with inet_pton wherever inet_pton accepts
        assert struct.unpack(">I", socket.inet_aton(s))[0] == r
        import netaddr
        assert netaddr.IPAddress(s)._value == r and netaddr.IPAddress(s).version == 4
    return r


def impl_nmap_octets(s):
    from netaddr.ip.nmap import _nmap_octet_target_values
    return list(_nmap_octet_target_values(s))


def impl_expand_partial(s):
    from netaddr.strategy.ipv4 import expand_partial_address
    return expand_partial_address(s)


def impl_ipnetwork_str(s, tab):
    import netaddr
    n = netaddr.IPNetwork(s)
    return [n.version, n._value, n._prefixlen]


def _run_gen(it):
    from harness.wire import exn_of
    items, err = [], None
    try:
        for a in it:
            items.append([a.version, a._value])
            if len(items) > 70000:
                raise AssertionError("generator too long for the harness")
    except Exception as ex:  # noqa
        err = exn_of(ex)
    return [items, err]


def impl_nmap_spec(s, tab):
    from netaddr.ip.nmap import valid_nmap_range, iter_nmap_range
    v = valid_nmap_range(s)
    assert v is True or v is False
    return [v, _run_gen(iter_nmap_range(s))]


def impl_nmap_cidr_probe(s, tab):
    """a CIDR target of any size: the validity flag and what islice(iter_nmap_range(s), 3) sees"""
    import itertools
    from netaddr.ip.nmap import valid_nmap_range, iter_nmap_range
    v = valid_nmap_range(s)
    assert v is True or v is False
    return [v, _run_gen(itertools.islice(iter_nmap_range(s), 3))]


def impl_nmap_iter(specs, tab):
    from netaddr.ip.nmap import iter_nmap_range
    return _run_gen(iter_nmap_range(*specs))


IMPL = {
    "valid_glob": impl_valid_glob, "glob_to_iptuple": impl_glob_to_iptuple, "glob_to_iprange": impl_glob_to_iprange,
    "to_cidrs": impl_to_cidrs, "iprange_to_globs": impl_iprange_to_globs, "glob_to_cidrs": impl_glob_to_cidrs,
    "cidr_to_glob": impl_cidr_to_glob, "ipglob": impl_ipglob, "ipglob_set": impl_ipglob_set,
    "ipglob_setstate": impl_ipglob_setstate, "pton4": impl_pton4, "nmap_octets": impl_nmap_octets,
    "expand_partial": impl_expand_partial, "ipnetwork_str": impl_ipnetwork_str, "nmap_spec": impl_nmap_spec,
    "nmap_iter": impl_nmap_iter, "nmap_cidr_probe": impl_nmap_cidr_probe,
}
IMPL.update(pystr_cases.IMPL)


# ------------------------------------------------------------------ the property, computed independently
_OCT = r"(?:0|[1-9][0-9]{0,2})"
_RE_OCT = re.compile(_OCT)
_RE_RNG = re.compile("(%s)-(%s)" % (_OCT, _OCT))


def parse_glob(s):
    """The grammar of the statement: four dot-separated fields, each a canonical decimal 0..255, '*', or 'x-y' with
    x < y; at most one hyphen field; after a hyphen field or '*' only '*'.  -> list of fields, or None."""
    if not isinstance(s, str):
        return None
    parts = s.split(".")
    if len(parts) != 4:
        return None
    fields = []
    for p in parts:
        if p == "*":
            fields.append(("*", 0, 255))
        elif _RE_OCT.fullmatch(p):
            if int(p) > 255:
                return None
            fields.append(("n", int(p), int(p)))
        else:
            m = _RE_RNG.fullmatch(p)
            if not m:
                return None
            x, y = int(m.group(1)), int(m.group(2))
            if not x < y <= 255:
                return None
            fields.append(("r", x, y))
    tail = False
    for f in fields:
        if f[0] == "*":
            tail = True
        else:
            if tail:
                return None
            if f[0] == "r":
                tail = True
    return fields


def octs(v):
    return [(v >> 24) & 255, (v >> 16) & 255, (v >> 8) & 255, v & 255]


def unocts(o):
    return ((o[0] * 256 + o[1]) * 256 + o[2]) * 256 + o[3]


def glob_bounds(fields):
    return unocts([f[1] for f in fields]), unocts([f[2] for f in fields])


def matches(fields, x):
    return all(f[1] <= o <= f[2] for f, o in zip(fields, octs(x)))


def interval_is_matching_set(fields, lo, hi):
    """spot-check (the general statement is theorem C17_convert): membership in [lo, hi] = field-wise match"""
    pts = {lo, hi, max(0, lo - 1), min(M32, hi + 1), (lo + hi) // 2, lo ^ 1, hi ^ 1, lo ^ 256, hi ^ 256,
           (lo + 256) & M32, (hi - 256) & M32, lo ^ 65536, hi ^ (1 << 24)}
    return all(matches(fields, x) == (lo <= x <= hi) for x in pts if 0 <= x <= M32)


def glob_shaped(lo, hi):
    a, b = octs(lo), octs(hi)
    i = 0
    while i < 4 and a[i] == b[i]:
        i += 1
    if i < 4 and not (a[i] == 0 and b[i] == 255):
        if a[i] >= b[i]:
            return False
        i += 1
    while i < 4 and a[i] == 0 and b[i] == 255:
        i += 1
    return i == 4


def orc_valid_glob(args, res):
    (s,) = args
    if isinstance(res, Exn):
        return "valid_glob raised %s" % res.name
    exp = parse_glob(s) is not None
    if res != exp:
        return "valid_glob(%r) = %r but the string is %sin the glob grammar" % (s, res, "" if exp else "not ")


def orc_glob_convert(what):
    def f(args, res):
        (s,) = args
        fields = parse_glob(s)
        if fields is None:
            if res != Exn("AddrFormatError"):
                return "%s(%r) on a string outside the grammar gave %r" % (what, s, res)
            return None
        if isinstance(res, Exn):
            return "%s(%r) raised %s on a string of the glob grammar" % (what, s, res.name)
        lo, hi = glob_bounds(fields)
        if res != [lo, hi]:
            return "%s(%r) = %r, the matching addresses are [%d, %d]" % (what, s, res, lo, hi)
        if not interval_is_matching_set(fields, lo, hi):
            return "matching set of %r is not the interval" % s
    return f


def tiles(ivs, lo, hi):
    cur = lo
    for a, b in ivs:
        if a != cur or b < a:
            return False
        cur = b + 1
    return cur == hi + 1


def orc_iprange_to_globs(args, res):
    sv, s, ev, e = args
    if sv != 4 or ev != 4:
        if sv != 4 and ev != 4 and res != Exn("AddrConversionError"):
            return "IPv6 range gave %r" % (res,)
        return None
    if s > e:
        return None
    if isinstance(res, Exn):
        return "iprange_to_globs raised %s" % res.name
    ivs = []
    for g in res:
        fields = parse_glob(g)
        if fields is None:
            return "output %r is not a valid glob" % g
        ivs.append(glob_bounds(fields))
    if not tiles(ivs, s, e):
        return "globs %r do not tile [%d, %d] in ascending order" % (res, s, e)
    if (len(res) == 1) != glob_shaped(s, e):
        return "%d globs for a range that is %sglob-shaped" % (len(res), "" if glob_shaped(s, e) else "not ")


def orc_to_cidrs(args, res):
    lo, hi = args
    if isinstance(res, Exn):
        return "iprange_to_cidrs raised %s" % res.name
    ivs = []
    for v, p in res:
        if not (0 <= p <= 32 and v % 2 ** (32 - p) == 0):
            return "block %r not aligned" % ([v, p],)
        ivs.append((v, v + 2 ** (32 - p) - 1))
    if not tiles(ivs, lo, hi):
        return "blocks do not tile the range"


def orc_glob_to_cidrs(args, res):
    (s,) = args
    fields = parse_glob(s)
    if fields is None:
        if res != Exn("AddrFormatError"):
            return "glob_to_cidrs(%r) outside the grammar gave %r" % (s, res)
        return None
    lo, hi = glob_bounds(fields)
    return orc_to_cidrs([lo, hi], res)


def orc_cidr_to_glob(args, res):
    ver, v, p = args
    if ver != 4:
        if res != Exn("AddrConversionError"):
            return "IPv6 CIDR gave %r" % (res,)
        return None
    if isinstance(res, Exn):
        return "cidr_to_glob raised %s" % res.name
    fields = parse_glob(res)
    if fields is None:
        return "output %r is not a valid glob" % res
    first = v - v % 2 ** (32 - p)
    last = first + 2 ** (32 - p) - 1
    if glob_bounds(fields) != (first, last):
        return "glob %r is not exactly the block [%d, %d]" % (res, first, last)


def orc_ipglob(args, res):
    (s,) = args
    fields = parse_glob(s)
    if fields is None:
        if res != Exn("AddrFormatError"):
            return "IPGlob(%r) outside the grammar gave %r" % (s, res)
        return None
    if isinstance(res, Exn):
        return "IPGlob(%r) raised %s" % (s, res.name)
    lo, hi = glob_bounds(fields)
    st, text, gs, rt = res
    if st[:2] != [lo, hi]:
        return "IPGlob(%r) spans %r, not [%d, %d]" % (s, st[:2], lo, hi)
    f2 = parse_glob(st[2])
    if f2 is None or glob_bounds(f2) != (lo, hi):
        return "IPGlob(%r).glob = %r does not denote the same addresses" % (s, st[2])
    if text != st[2]:
        return "str() is not the glob"
    if gs != [lo, hi, 4]:
        return "__getstate__ = %r" % (gs,)
    if rt != st:
        return "pickle round trip changed the object: %r -> %r" % (st, rt)


def orc_ipglob_set(args, res):
    s, s2 = args
    f1, f2 = parse_glob(s), parse_glob(s2)
    if f1 is None:
        return None if res == Exn("AddrFormatError") else "IPGlob(%r) gave %r" % (s, res)
    if isinstance(res, Exn):
        return "harness-level failure %s" % res.name
    st, e, cid, size = res
    if size != st[1] - st[0] + 1:
        return "size %r is not last-first+1 after the assignment" % (size,)
    from harness.props.c05 import min_cidrs
    if [[4] + c for c in cid] != min_cidrs(4, st[0], st[1]):
        return "cidrs() after the assignment is not the CIDR list of the glob's current range"
    if f2 is None:
        if e != Exn("AddrFormatError"):
            return "assigning %r gave %r" % (s2, e)
        lo, hi = glob_bounds(f1)
        g = parse_glob(st[2])
        if st[:2] != [lo, hi] or g is None or glob_bounds(g) != (lo, hi):
            return "failed assignment changed the object"
        return None
    if e is not None:
        return "assigning the valid glob %r raised %s" % (s2, e.name)
    lo, hi = glob_bounds(f2)
    g = parse_glob(st[2])
    if st[:2] != [lo, hi] or g is None or glob_bounds(g) != (lo, hi):
        return "after assignment of %r the object is %r" % (s2, st)


_RE_NUM = re.compile(r"[0-9]+")
_RE_ELEM = re.compile(r"([0-9]*)-([0-9]*)")


def strict_octet_set(spec):
    """Independent reading of an nmap octet list written with plain digits: -> set, 'error', or None (not plain)."""
    vals = set()
    for el in spec.split(","):
        if _RE_NUM.fullmatch(el):
            v = int(el)
            if v > 255:
                return "error"
            vals.add(v)
            continue
        m = _RE_ELEM.fullmatch(el)
        if not m:
            return None
        lo = int(m.group(1)) if m.group(1) else 0
        hi = int(m.group(2)) if m.group(2) else 255
        if lo > 255 or hi > 255 or lo > hi:
            return "error"
        vals.update(range(lo, hi + 1))
    return vals


_RE_CIDR = re.compile(r"(%s)\.(%s)\.(%s)\.(%s)/([0-9]+)" % (_OCT, _OCT, _OCT, _OCT))


def expected_nmap(spec, tab):
    """-> ('ok', list of [ver, value]) | ('error',) | None when this oracle does not decide the spec."""
    if "/" in spec:
        m = _RE_CIDR.fullmatch(spec)
        if not m:
            return None
        o = [int(x) for x in m.groups()[:4]]
        p = int(m.group(5))
        if max(o) > 255:
            return None
        if not 0 < p < 33:
            return ("error",)
        v = unocts(o)
        first = v - v % 2 ** (32 - p)
        return ("ok", [[4, x] for x in range(first, first + 2 ** (32 - p))])
    if ":" in spec:
        for k, r in tab:
            if k == spec:
                return ("error",) if isinstance(r, Exn) else ("ok", [r])
        return None
    if spec == "":
        return ("error",)
    toks = spec.split(".")
    if len(toks) != 4:
        return ("error",)
    sets = [strict_octet_set(t) for t in toks]
    if any(x is None for x in sets):
        return None
    if any(x == "error" for x in sets):
        return ("error",)
    A, B, C, D = [sorted(x) for x in sets]
    return ("ok", [[4, unocts([a, b, c, d])] for a in A for b in B for c in C for d in D])


def check_gen(spec_list, tab, g):
    items, err = g
    exp_items = []
    exp_err = False
    decided = True
    for s in spec_list:
        r = expected_nmap(s, tab)
        if r is None:
            decided = False
            break
        if r[0] == "error":
            exp_err = True
            break
        exp_items += r[1]
    if decided:
        if exp_err != (err is not None):
            return "iteration %s but the specification is %s" % ("failed" if err else "succeeded",
                                                                 "malformed" if exp_err else "well formed")
        if items != exp_items:
            return "yielded %d addresses, the specification denotes %d (or order/duplicates differ)" % (
                len(items), len(exp_items))
    if err is not None and err.name not in ("ValueError", "AddrFormatError", "TypeError"):
        return "iteration raised %s" % err.name
    return None


def orc_nmap_spec(args, res):
    s, tab = args
    if isinstance(res, Exn):
        return "valid_nmap_range/iter_nmap_range harness failure %s" % res.name
    v, g = res
    items, err = g
    if v != (err is None):
        return "valid_nmap_range(%r) = %r but iter_nmap_range %s" % (s, v, "raised %s" % err.name if err else "succeeded")
    if err is not None and items:
        return "iter_nmap_range(%r) raised after yielding" % s
    vals = [x[1] for x in items]
    if any(a >= b for a, b in zip(vals, vals[1:])) :
        return "addresses not strictly ascending"
    if err is None and not items:
        return "nothing yielded"
    return check_gen([s], tab, g)


def orc_nmap_cidr_probe(args, res):
    s, tab = args
    if isinstance(res, Exn):
        return "valid_nmap_range/iter_nmap_range harness failure %s" % res.name
    v, (items, err) = res
    if v != (err is None):
        return "valid_nmap_range(%r) = %r but iter_nmap_range %s" % (s, v, "raised %s" % err.name if err else "succeeded")
    if err is not None and items:
        return "iter_nmap_range(%r) raised after yielding" % s
    if err is not None and err.name not in ("ValueError", "AddrFormatError", "TypeError"):
        return "iteration raised %s" % err.name
    m = _RE_CIDR.fullmatch(s)
    if not m:
        return None
    o = [int(x) for x in m.groups()[:4]]
    p = int(m.group(5))
    if max(o) > 255:
        return None
    if not 0 < p < 33:
        return None if err is not None else "prefix %d accepted" % p
    if err is not None:
        return "well-formed IPv4 CIDR %r refused (%s)" % (s, err.name)
    first = unocts(o) - unocts(o) % 2 ** (32 - p)
    exp = [[4, x] for x in range(first, first + min(3, 2 ** (32 - p)))]
    if items != exp:
        return "first addresses %r, the block starts %r" % (items, exp)
    return None


def orc_nmap_iter(args, res):
    specs, tab = args
    if isinstance(res, Exn):
        return "harness failure %s" % res.name
    return check_gen(specs, tab, res)


def orc_nmap_octets(args, res):
    (s,) = args
    exp = strict_octet_set(s)
    if exp is None:
        if not isinstance(res, Exn) and (res != sorted(set(res)) or not res or res[0] < 0 or res[-1] > 255):
            return "octet values %r not a sorted set of octets" % (res,)
        return None
    if exp == "error":
        return None if res == Exn("ValueError") else "malformed octet list %r gave %r" % (s, res)
    if res != sorted(exp):
        return "octet list %r gave %r" % (s, res)


def orc_pton4(args, res):
    (s,) = args
    parts = s.split(".")
    ok = len(parts) == 4 and all(_RE_OCT.fullmatch(p) and int(p) <= 255 for p in parts)
    exp = unocts([int(p) for p in parts]) if ok else None
    if res != exp:
        return "inet_pton(AF_INET, %r) = %r, canonical dotted quad reading %r" % (s, res, exp)


ORACLE = {
    "valid_glob": orc_valid_glob,
    "glob_to_iptuple": orc_glob_convert("glob_to_iptuple"),
    "glob_to_iprange": orc_glob_convert("glob_to_iprange"),
    "iprange_to_globs": orc_iprange_to_globs,
    "to_cidrs": orc_to_cidrs,
    "glob_to_cidrs": orc_glob_to_cidrs,
    "cidr_to_glob": orc_cidr_to_glob,
    "ipglob": orc_ipglob,
    "ipglob_set": orc_ipglob_set,
    "nmap_spec": orc_nmap_spec,
    "nmap_iter": orc_nmap_iter,
    "nmap_cidr_probe": orc_nmap_cidr_probe,
    "nmap_octets": orc_nmap_octets,
    "pton4": orc_pton4,
}


# ------------------------------------------------------------------ generators
B = [0, 1, 9, 10, 99, 100, 199, 200, 249, 250, 255, 256]
ALPHA = "0123456789.*- +_"


def shapes():
    """(number of plain fields, has hyphen field) -> field kinds, asterisks filling the rest"""
    out = []
    for k in range(5):
        out.append(["n"] * k + ["*"] * (4 - k))
        if k < 4:
            out.append(["n"] * k + ["r"] + ["*"] * (3 - k))
    return out


def render(kinds, rng, pool=B):
    parts = []
    for k in kinds:
        if k == "n":
            parts.append(str(rng.choice(pool)))
        elif k == "*":
            parts.append("*")
        else:
            x, y = rng.choice(pool), rng.choice(pool)
            if rng.random() < 0.8 and x > y:
                x, y = y, x
            parts.append("%d-%d" % (x, y))
    return ".".join(parts)


def valid_seed_globs(rng, n):
    pool = [b for b in B if b <= 255]
    out = []
    sh = shapes()
    while len(out) < n:
        g = render(rng.choice(sh), rng, pool)
        if parse_glob(g) is not None:
            out.append(g)
    return out


def edits1(s):
    for i in range(len(s) + 1):
        for c in ALPHA:
            yield s[:i] + c + s[i:]
    for i in range(len(s)):
        yield s[:i] + s[i + 1:]
        for c in ALPHA:
            if c != s[i]:
                yield s[:i] + c + s[i + 1:]


def rand_edit(s, rng):
    r = rng.random()
    i = rng.randrange(len(s) + 1)
    if r < 0.4 or not s:
        return s[:i] + rng.choice(ALPHA) + s[i:]
    i = rng.randrange(len(s))
    if r < 0.7:
        return s[:i] + s[i + 1:]
    return s[:i] + rng.choice(ALPHA) + s[i + 1:]


def glob_strings(rng, tier):
    quick = tier == "quick"
    out = []
    # all shapes x boundary octets
    for kinds in shapes():
        nfree = sum(1 for k in kinds if k == "n") + 2 * sum(1 for k in kinds if k == "r")
        n = min(len(B) ** nfree, 250 if quick else 4000)
        for _ in range(n):
            out.append(render(kinds, rng))
        # one field sweeps all boundary values, the others fixed
        for i, k in enumerate(kinds):
            if k == "n":
                for b in B:
                    parts = [("7" if kk == "n" else "*" if kk == "*" else "3-250") for kk in kinds]
                    parts[i] = str(b)
                    out.append(".".join(parts))
            elif k == "r":
                for x in B:
                    for y in B:
                        parts = [("7" if kk == "n" else "*") for kk in kinds]
                        parts[i] = "%d-%d" % (x, y)
                        out.append(".".join(parts))
    # ill-shaped orders and wrong field counts
    kindsets = ["n", "*", "r"]
    for _ in range(400 if quick else 6000):
        nf = rng.choice([4, 4, 4, 4, 3, 5, 2, 1])
        out.append(render([rng.choice(kindsets) for _ in range(nf)], rng))
    # numerals int() tolerates but the address parser does not (F-16) and friends
    odd = ["010", "00", "01", "001", "0255", "000", " 1", "1 ", "+1", "-1", "1_0", "1__0", "_1", "1_", "0x1", "1e1", "",
           "\t5", "5\n", "٣", "²", "1.0", "0_0", "+0", "-0", "0 ", "255 ", "0255", "1000", "99999999999999999999"]
    for o in odd:
        for tmpl in ("%s.0.0.*", "1.2.3.%s", "1.2.%s.*", "1.%s-5.*.*", "1.2.3.1-%s", "%s-%s.*.*.*", "1.2.3.%s-9"):
            try:
                out.append(tmpl % ((o,) * tmpl.count("%s")))
            except Exception:  # noqa
                pass
    out += ["*.*.*.*", "0.0.0.0", "255.255.255.255", "0-255.*.*.*", "1.2.0-255.*", "1.2.3.0-255", "1.*.3.4", "1.2-3.4.5",
            "1.2-3.4-5.*", "*.1-2.*.*", "1.2.3.4-4", "1.2.3.5-4", "1.2.3.-", "1.2.3.-5", "1.2.3.5-", "1.2.3.1-2-3",
            "1.2.3.--", "", ".", "...", "....", "*", "*.*.*", "*.*.*.*.*", "1.2.3.4.", ".1.2.3.4", "1..3.4", "**.*.*.*",
            "1.2.3.*-", "1.2.3.*-*", "1.2.3.4 ", " 1.2.3.4", "1.2.3.4\n", "1.2.3.0-010", "010.0.0.*", "+1.2.3.4",
            "1_0.0.0.0", "192.0.2-3.*", "192.0-1.*.*", "192.0.2.0-31", "1.2.3.0-256", "1.2.3.254-255", "1.2.3.255-256"]
    seeds = valid_seed_globs(rng, 12 if quick else 60) + ["192.0.2.1", "10.0-9.*.*", "*.*.*.*", "1.2.3.0-255"]
    for s in seeds:
        e1 = list(edits1(s))
        if quick:
            e1 = rng.sample(e1, min(len(e1), 260))
        out += e1
        for _ in range(150 if quick else 1500):
            out.append(rand_edit(rand_edit(s, rng), rng))
    for _ in range(600 if quick else 20000):
        out.append("".join(rng.choice(ALPHA) for _ in range(rng.randint(0, 12))))
    seen, res = set(), []
    for s in out:
        try:
            s.encode("latin-1")
        except UnicodeEncodeError:
            continue
        if s not in seen:
            seen.add(s)
            res.append(s)
    return res


def aligned_value(rng):
    """IPv4 value whose low octets sit on 0 / 255 / +-1 boundaries"""
    o = [rng.choice([0, 1, 127, 128, 254, 255, rng.randrange(256)]) for _ in range(4)]
    k = rng.randrange(5)
    fill = rng.choice([0, 255])
    for i in range(4 - k, 4):
        o[i] = fill
    v = unocts(o) + rng.choice([0, 0, 0, 1, -1])
    return max(0, min(M32, v))


def intervals(rng, tier):
    quick = tier == "quick"
    out = []
    for (ver, base, ap) in gens.ARENAS:
        if ver != 4 or ap == 0:
            continue
        size = 2 ** (32 - ap)
        pairs = [(base + i, base + j) for i in range(size) for j in range(i, size)]
        if quick and len(pairs) > 2500:
            keep = [p for p in pairs if (p[0] - base) % 64 in (0, 1, 63) or (p[1] - base) % 64 in (0, 62, 63)]
            pairs = rng.sample(pairs, 1500) + rng.sample(keep, 1000)
        out += pairs
    for _ in range(2500 if quick else 150000):
        a, b = aligned_value(rng), aligned_value(rng)
        if a > b:
            a, b = b, a
        out.append((a, b))
    # glob-shaped intervals and neighbours
    for g in valid_seed_globs(rng, 300 if quick else 8000):
        lo, hi = glob_bounds(parse_glob(g))
        out.append((lo, hi))
        for dl, dh in ((1, 0), (0, -1), (-1, 0), (0, 1), (1, 1)):
            a, b = lo + dl, hi + dh
            if 0 <= a <= b <= M32:
                out.append((a, b))
    out += [(0, M32), (0, 0), (M32, M32), (1, M32), (0, M32 - 1), (1, M32 - 1), (0, 255), (0, 256), (255, 256)]
    for _ in range(300 if quick else 20000):
        a, b = rng.getrandbits(32), rng.getrandbits(32)
        if a > b:
            a, b = b, a
        out.append((a, b))
    return out


def plat_addr(s):
    """IPAddress(text) according to the platform functions: inet_aton first, inet_pton(AF_INET6) second."""
    try:
        return [4, struct.unpack(">I", socket.inet_aton(s))[0]]
    except Exception:  # noqa
        pass
    return plat_pton6(s)


def plat_pton6(s):
    try:
        return [6, int.from_bytes(socket.inet_pton(socket.AF_INET6, s), "big")]
    except Exception:  # noqa
        return Exn("AddrFormatError")


def table_for(specs):
    tab = []
    for s in specs:
        if "/" in s:
            v1 = s.split("/", 1)[0]
            tab.append([v1, plat_pton6(v1)])
        elif ":" in s:
            tab.append([s, plat_addr(s)])
    return tab


def numeral(rng, v, lenient):
    s = str(v)
    if lenient and rng.random() < 0.25:
        s = rng.choice([" %s", "%s ", "+%s", "0%s", "00%s", "%s\n", "\t%s"]) % s
        if rng.random() < 0.2 and len(str(v)) > 1:
            s = s.replace(str(v), str(v)[0] + "_" + str(v)[1:])
    return s


def octet_list(rng, budget, lenient=True):
    """comma/hyphen list denoting at most `budget` values (budget >= 1)"""
    elems = []
    vals = set()
    for _ in range(rng.choice([1, 1, 1, 2, 2, 3, 4])):
        r = rng.random()
        if r < 0.5 or budget - len(vals) < 2:
            v = rng.choice([0, 1, 254, 255, rng.randrange(256), rng.randrange(256)])
            if len(vals | {v}) > budget:
                v = next(iter(vals))
            vals.add(v)
            elems.append(numeral(rng, v, lenient))
        else:
            room = budget - len(vals)
            kind = rng.random()
            if kind < 0.15:      # -n
                hi = rng.randrange(0, min(room, 256))
                lo, txt = 0, "-" + numeral(rng, hi, lenient)
            elif kind < 0.3:     # n-
                lo = 255 - rng.randrange(0, min(room, 256))
                hi, txt = 255, numeral(rng, lo, lenient) + "-"
            elif kind < 0.35 and room >= 256:
                lo, hi, txt = 0, 255, "-"
            else:
                lo = rng.choice([0, 1, rng.randrange(256), rng.randrange(256), 250])
                hi = min(255, lo + rng.randrange(0, min(room, 40)))
                txt = numeral(rng, lo, lenient) + "-" + numeral(rng, hi, lenient)
            if len(vals | set(range(lo, hi + 1))) > budget:
                continue
            vals.update(range(lo, hi + 1))
            elems.append(txt)
    if not elems:
        elems = ["7"]
        vals = {7}
    if rng.random() < 0.15:
        elems.append(rng.choice(elems))      # duplicate element
    return ",".join(elems), len(vals)


def nmap_spec(rng, lenient=True):
    budget = 4096
    parts = []
    order = [0, 1, 2, 3]
    rng.shuffle(order)
    res = [None] * 4
    for i in order:
        b = max(1, min(budget, rng.choice([1, 1, 2, 4, 16, 64, 256])))
        txt, n = octet_list(rng, b, lenient)
        budget //= max(1, n)
        res[i] = txt
    return ".".join(res)


NMAP_ALPHA = "0123456789.,-/: +_*a"


def nmap_specs(rng, tier):
    quick = tier == "quick"
    out = []
    for _ in range(1500 if quick else 40000):
        out.append(nmap_spec(rng))
    for _ in range(500 if quick else 10000):
        out.append(nmap_spec(rng, lenient=False))
    # CIDR forms
    for _ in range(500 if quick else 10000):
        p = rng.choice([20, 24, 28, 30, 31, 32, 32, rng.randrange(20, 33), 0, 33, 34, rng.choice([-1, 64, 128, 129])])
        o = [rng.choice([0, 1, 10, 192, 255, rng.randrange(256), 256]) for _ in range(4)]
        n = rng.choice([4, 4, 4, 4, 3, 2, 1, 5])
        addr = ".".join(str(x) for x in o[:n] + [0] * (n - 4))
        r = rng.random()
        if r < 0.1:
            addr = rng.choice([" ", "0", "+", ""]) + addr
        elif r < 0.15:
            addr = rng.choice(["::1", "::", "fe80::1", "::ffff:1.2.3.4", "1::2", ":"])
        ptxt = str(p)
        r = rng.random()
        if r < 0.1:
            t = rng.choice([" %s", "+%s", "0%s", "%s ", "%s/1", "%s.0", "", "x", "255.255.255.0", "2_4", "/"])
            ptxt = (t % ptxt) if "%s" in t else t
        out.append(addr + "/" + ptxt)
    out += ["1.2.3.4/32", "1.2.3.255/31", "10/20", "10.1/20", "10.1.2/24", "010.1/24", "1.2.3.4/0", "1.2.3.4/33",
            "1.2.3.4/", "/24", "/", "1.2.3.4//24", "1.2.3.4/24/", "1.2.3.4/ 24", "1.2.3.4/2_4", "::1/24", "::/32",
            "1.2.3.4\x00/24", "1.2.3/24", "256.1.1.1/24", "1.2.3.4.5/24", "-1/24", "1.-2/24", "1:2/24"]
    # IPv6 / colon forms
    v6 = ["::1", "::", "fe80::1", "2001:db8::ff00:42:8329", "::ffff:1.2.3.4", "1:2:3:4:5:6:7:8", ":", ":::", "1::2::3",
          "1.2.3.4 :", "1.2.3.4:", "::1 ", " ::1", "g::1", "1:2:3:4:5:6:7", "1:2:3:4:5:6:7:8:9", "::1.2.3", "0:0:0:0:0:0:0:0",
          "FFFF:ffff:FFFF:ffff:FFFF:ffff:FFFF:ffff", "::1%eth0", "12345::", "1.2.3.4\t:x"]
    out += v6
    for _ in range(200 if quick else 5000):
        h = [rng.choice(["0", "1", "ffff", "%x" % rng.getrandbits(16), "%X" % rng.getrandbits(16)]) for _ in range(8)]
        s = ":".join(h)
        if rng.random() < 0.5:
            i = rng.randrange(8)
            j = rng.randrange(i, 8)
            s = ":".join(h[:i]) + "::" + ":".join(h[j + 1:])
        out.append(s)
    out += ["", ".", "...", "1.2.3", "1.2.3.4.5", "1.2.3.", "1.2.3.-", "1.2.3.-5", "1.2.3.250-", "1.2.3.5-1", "1.2.3.1,,2",
            "1.2.3.1-2-3", "1.2.3.-1-3", "1.2.3.--3", "1.2.3.-0", "1.2.3.0-256", "1.2.3. 1 - 3 ", "1.2.3.,", ",.,.,.,",
            "-.0.0.0", "0.0.-.-", "0,0,0.1.1.1", "255-.1.1.1", "1.2.3.256", "1.2.3.-256", "1.2.3.*", "1.2.3.a",
            "192.0.2.16-31", "192.0.2-3.1-254", "0-1,1-2,3.0.0.254-,-1"]
    base = [nmap_spec(rng) for _ in range(20 if quick else 200)] + ["192.0.2-3.1,5-7", "10.0.0.0/30", "1.2.3.-"]
    for s in base:
        for _ in range(60 if quick else 300):
            t = s
            for _ in range(rng.choice([1, 1, 2])):
                i = rng.randrange(len(t) + 1)
                r = rng.random()
                if r < 0.4:
                    t = t[:i] + rng.choice(NMAP_ALPHA) + t[i:]
                elif r < 0.7 and t:
                    i = rng.randrange(len(t))
                    t = t[:i] + t[i + 1:]
                elif t:
                    i = rng.randrange(len(t))
                    t = t[:i] + rng.choice(NMAP_ALPHA) + t[i + 1:]
            out.append(t)
    seen, res = set(), []
    for s in out:
        if s not in seen and cheap(s):
            seen.add(s)
            res.append(s)
    return res


def cheap(spec):
    """refuse specifications that would make the implementation iterate more than 2^16 addresses"""
    if "/" in spec:
        try:
            p = int(spec.split("/", 1)[1])
        except ValueError:
            return True
        return not (0 < p < 20)
    if ":" in spec:
        return True
    n = 1
    for t in spec.split("."):
        k = 0
        for el in t.split(","):
            if "-" in el:
                l, r = el.split("-", 1)
                try:
                    lo = int(l) if l else 0
                    hi = int(r) if r else 255
                except ValueError:
                    return True
                k += max(0, min(hi, 255) - max(lo, 0) + 1)
            else:
                k += 1
        n *= max(1, min(k, 256))
    return n <= 4096


def cases(rng, tier):
    quick = tier == "quick"
    gs = glob_strings(rng, tier)
    for s in gs:
        yield ("valid_glob", [s], "glob_valid")
        yield ("glob_to_iptuple", [s], "glob_convert")
    for s in gs:
        f = parse_glob(s)
        if f is not None or rng.random() < 0.15:
            yield ("glob_to_iprange", [s], "glob_convert")
            yield ("ipglob", [s], "ipglob")
            yield ("glob_to_cidrs", [s], "glob_to_cidrs")
    yield ("valid_glob", [None], "glob_valid")
    yield ("valid_glob", [5], "glob_valid")
    yield ("valid_glob", [["1.2.3.4"]], "glob_valid")
    valid = [s for s in gs if parse_glob(s) is not None]
    for _ in range(400 if quick else 8000):
        a = rng.choice(valid)
        b = rng.choice(valid) if rng.random() < 0.7 else rng.choice(gs)
        yield ("ipglob_set", [a, b], "ipglob")
    ivs = intervals(rng, tier)
    for lo, hi in ivs:
        yield ("iprange_to_globs", [4, lo, 4, hi], "to_globs")
    for lo, hi in (ivs if not quick else rng.sample(ivs, min(len(ivs), 3000))):
        yield ("to_cidrs", [lo, hi], "to_cidrs")
    for lo, hi in rng.sample(ivs, min(len(ivs), 300 if quick else 5000)):
        yield ("ipglob_setstate", [lo, hi, 4], "ipglob")
    yield ("ipglob_setstate", [1, 2, 6], "ipglob")
    yield ("ipglob_setstate", [1, 2, 5], "ipglob")
    yield ("ipglob_setstate", [-1, 2, 4], "ipglob")
    yield ("ipglob_setstate", [1, 2 ** 32, 4], "ipglob")
    yield ("iprange_to_globs", [6, 1, 6, 2], "to_globs")
    yield ("iprange_to_globs", [6, 2 ** 100, 6, 2 ** 101], "to_globs")
    vals = gens.values(rng, 4, 20 if quick else 400, cap_boundary=60 if quick else None)
    for p in range(33):
        for v in vals:
            yield ("cidr_to_glob", [4, v, p], "cidr_to_glob")
    for p in (0, 1, 64, 127, 128):
        yield ("cidr_to_glob", [6, 2 ** 127 + 5, p], "cidr_to_glob")
    # platform parser for canonical dotted quads
    for s in gs:
        if s.count(".") == 3 and "*" not in s and "-" not in s:
            yield ("pton4", [s], "pton4")
    for _ in range(300 if quick else 5000):
        yield ("pton4", [".".join(str(rng.choice(B)) for _ in range(rng.choice([4, 4, 4, 3, 5])))], "pton4")
    # nmap
    specs = nmap_specs(rng, tier)
    for s in specs:
        yield ("nmap_spec", [s, table_for([s])], "nmap")
        if "/" in s:
            v2 = s.split("/", 1)[1]
            try:
                int(v2)
            except ValueError:
                continue
            yield ("ipnetwork_str", [s, table_for([s])], "nmap_cidr")
            yield ("expand_partial", [s.split("/", 1)[0]], "nmap_cidr")
    # CIDR targets of every size (too large to enumerate: validity flag + first three addresses)
    probes = [s for s in specs if "/" in s]
    for _ in range(400 if quick else 8000):
        pfx = rng.choice([0, 1, 1, 2, 3, 7, 8, 9, 15, 16, 17, 19, 20, 24, 30, 31, 32, 33, rng.randrange(0, 35)])
        o = [rng.choice([0, 1, 10, 127, 128, 192, 255, rng.randrange(256)]) for _ in range(4)]
        probes.append("%d.%d.%d.%d/%d" % (o[0], o[1], o[2], o[3], pfx))
    for s in probes:
        yield ("nmap_cidr_probe", [s, table_for([s])], "nmap_cidr_probe")
    for s in specs:
        if "/" not in s and ":" not in s:
            for t in s.split("."):
                yield ("nmap_octets", [t], "nmap_octets")
    small = [s for s in specs if "/" in s or ":" in s or len(s) < 14]
    for _ in range(300 if quick else 5000):
        l = [rng.choice(small) for _ in range(rng.choice([0, 1, 2, 2, 3]))]
        yield ("nmap_iter", [l, table_for(l)], "nmap_multi")
    # specs whose trailing octets are full: tens of thousands of addresses, enumerated completely (a block-size shortcut for wildcard
    # octets shows only beyond the first few hundred addresses)
    # (every spec stays below the 70 000 addresses the adapter's _run_gen accepts: at most two full octets)
    for s in (["10.7.0-255.0-255"], ["10.7.-.-"], ["192.168.254-255.-", "10.0-1.0.0-"]) if tier == "quick" else (
            ["10.7.0-255.0-255"], ["10.7.-.-"], ["192.168.254-255.-", "10.0-1.0.0-"], ["255.255.-.-"], ["0.0.0-255.0-255"], ["1.2.3-.-", "1.4.250-.-"]):
        yield ("nmap_iter", [s, table_for(s)], "nmap_big")
    for c in pystr_cases.cases(rng, tier):
        yield c


# ---- object-lifecycle checks (harness/lifecycle.py): objects with a history behave like fresh ones, results do not
# alias operands, failed mutators change nothing.  The functional model has no hidden state: its answer is "no discrepancy".
from harness import lifecycle as _life
IMPL.update(_life.IMPL)
ORACLE.update(_life.ORACLE)
EXACT = tuple(EXACT) + ("life",)
RULE = RULE + " | lifecycle: observe-mutate-observe vs a fresh object, aliasing of results, failure atomicity (glob)"
_cases_without_life = cases


def cases(rng, tier):
    yield from _cases_without_life(rng, tier)
    yield from _life.cases(rng, tier, {'glob'})


# ---- text beyond latin-1 (harness/unistream.py): Unicode digits, blanks and separator look-alikes substituted into valid texts must
# be refused by the strict entry points in the prescribed way.  Outside the 8-bit alphabet of the model: its answer is "no discrepancy".
from harness import unistream as _uni
IMPL.update(_uni.IMPL)
ORACLE.update(_uni.ORACLE)
EXACT = tuple(EXACT) + ("uni",)
RULE = RULE + " | text beyond latin-1 (Unicode digits / blanks / look-alikes in valid texts) at the strict entry points: glob"
_cases_without_uni = cases


def cases(rng, tier):
    yield from _cases_without_uni(rng, tier)
    yield from _uni.cases(rng, tier, ('glob',))
