"""C18 — address classification follows the published special-purpose blocks exactly."""
from harness import gens
from harness.wire import Exn

PROP = "C18"
THEOREM_FILE = "Props/C18.v"
EXTRA_THEOREM_FILES = ["Props/C18_src.v"]     # source tie: translated source = model (DESIGN 5.1b)
EXTRA_THEOREM_FILES.append("Props/C18_code.v")   # CODC: the C18 theorems stated about the regenerated definitions
RULE = ("classify_addr/net/range: every predicate at first-1, first, first+1, last-1, last, last+1 of every block of the "
        "independent spec tables AND of every row of the tables read from the current working tree; networks at EVERY "
        "prefix 0..width through first and last of every block (inside, equal, straddling either edge, spanning adjacent "
        "rows), with and without host bits; ranges inside / equal / one-off at either edge / spanning consecutive blocks; "
        "boundary + random addresses, blocks and ranges of both families; every object is built four ways in the adapter "
        "(string, int+version, copy, arithmetic/setter) and the four answers must agree. contains_row: `obj in row` for "
        "arbitrary IPNetwork/IPRange rows and address/network/range operands in small arenas (exhaustive-ish nesting, "
        "adjacency, host bits), at full scale, and across families. classify_tables: the tables the model runs on vs "
        "the tables of the running code")
EXACT = ("classify_addr", "classify_net", "classify_range", "contains_row")
TRUSTED = ["table translator harness/gen/classify.py (runtime dump of the ten IPV4_*/IPV6_* classification tables of the "
           "working tree + ast cross-check) producing coq/Gen/classify_gen.v",
           "hand transcription of the published blocks: Coq `spec`/`maxblocks` (Model/Classify.v) and, independently, the "
           "Python oracle tables of harness/props/c18.py"]

NAMES = ["unicast", "multicast", "loopback", "private", "link_local", "reserved"]

# ------------------------------------------------------------------ independent oracle tables (closed integer intervals)
# IANA IPv4 / IPv6 special-purpose address registries; private/reserved = the blocks netaddr documents.
ORC = {
    4: {
        "multicast": [(0xE0000000, 0xEFFFFFFF)],                     # 224.0.0.0/4
        "loopback": [(0x7F000000, 0x7FFFFFFF)],                      # 127.0.0.0/8
        "link_local": [(0xA9FE0000, 0xA9FEFFFF)],                    # 169.254.0.0/16
        "private_own": [
            (0x0A000000, 0x0AFFFFFF),                                # 10.0.0.0/8        RFC 1918
            (0x64400000, 0x647FFFFF),                                # 100.64.0.0/10     RFC 6598
            (0xAC100000, 0xAC1FFFFF),                                # 172.16.0.0/12     RFC 1918
            (0xC0000000, 0xC00000FF),                                # 192.0.0.0/24      RFC 5736
            (0xC0A80000, 0xC0A8FFFF),                                # 192.168.0.0/16    RFC 1918
            (0xC6120000, 0xC613FFFF),                                # 198.18.0.0/15     RFC 2544
            (0xEF000000, 0xEFFFFFFF),                                # 239.0.0.0/8       admin-scoped multicast
        ],
        "reserved": [
            (0x00000000, 0x00FFFFFF),                                # 0.0.0.0/8
            (0x7F000000, 0x7FFFFFFF),                                # 127.0.0.0/8
            (0xC0000200, 0xC00002FF),                                # 192.0.2.0/24
            (0xC0586300, 0xC05863FF),                                # 192.88.99.0/24
            (0xC6336400, 0xC63364FF),                                # 198.51.100.0/24
            (0xCB007100, 0xCB0071FF),                                # 203.0.113.0/24
            (0xE1000000, 0xE7FFFFFF),                                # 225.0.0.0 - 231.255.255.255
            (0xE9FC0000, 0xE9FC00FF),                                # 233.252.0.0/24
            (0xEA000000, 0xEEFFFFFF),                                # 234.0.0.0 - 238.255.255.255
            (0xF0000000, 0xFFFFFFFF),                                # 240.0.0.0/4
        ],
    },
    6: {
        "multicast": [(0xFF00 << 112, (1 << 128) - 1)],              # ff00::/8
        "loopback": [(1, 1)],                                        # ::1/128
        "link_local": [(0xFE80 << 112, (0xFEC0 << 112) - 1)],        # fe80::/10
        "private_own": [
            (0xFC00 << 112, (0xFE00 << 112) - 1),                    # fc00::/7
            (0xFEC0 << 112, (0xFF00 << 112) - 1),                    # fec0::/10
        ],
        "reserved": [
            (0, (0x0100 << 112) - 1),                                # ::/8
            (0x0100 << 112, (0x0200 << 112) - 1),                    # 0100::/8
            (0x0200 << 112, (0x0400 << 112) - 1),                    # 0200::/7
            (0x0400 << 112, (0x0800 << 112) - 1),                    # 0400::/6
            (0x0800 << 112, (0x1000 << 112) - 1),                    # 0800::/5
            (0x1000 << 112, (0x2000 << 112) - 1),                    # 1000::/4
            (0x4000 << 112, (0x6000 << 112) - 1),                    # 4000::/3
            (0x6000 << 112, (0x8000 << 112) - 1),                    # 6000::/3
            (0x8000 << 112, (0xA000 << 112) - 1),                    # 8000::/3
            (0xA000 << 112, (0xC000 << 112) - 1),                    # a000::/3
            (0xC000 << 112, (0xE000 << 112) - 1),                    # c000::/3
            (0xE000 << 112, (0xF000 << 112) - 1),                    # e000::/4
            (0xF000 << 112, (0xF800 << 112) - 1),                    # f000::/5
            (0xF800 << 112, (0xFC00 << 112) - 1),                    # f800::/6
            (0xFE00 << 112, (0xFE80 << 112) - 1),                    # fe00::/9
            (0xFF00 << 112, (0xFF10 << 112) - 1),                    # ff00::/12
        ],
    },
}


def orc_blocks(ver, name):
    t = ORC[ver]
    if name == "private":
        return t["private_own"] + t["link_local"]     # link-local always counts as private
    return t[name]


def expected(ver, first, last):
    """The property's answer for an object covering [first, last]: inside ONE documented block."""
    def one(name):
        return any(lo <= first and last <= hi for lo, hi in orc_blocks(ver, name))
    mc = one("multicast")
    return [not mc, mc, one("loopback"), one("private"), one("link_local"), one("reserved")]


# ------------------------------------------------------------------ implementation adapters
def _s(ver, v):
    if ver == 4:
        return "%d.%d.%d.%d" % (v >> 24 & 255, v >> 16 & 255, v >> 8 & 255, v & 255)
    return ":".join("%x" % (v >> (112 - 16 * i) & 0xFFFF) for i in range(8))


def _answers(o):
    return [o.is_unicast(), o.is_multicast(), o.is_loopback(), o.is_private(), o.is_link_local(), o.is_reserved()]


def _agree(objs):
    res = [_answers(o) for o in objs]
    if all(r == res[0] for r in res):
        return res[0]
    return ["DIFF"] + res


def _addr_arith(ver, v):
    import netaddr
    if v > 0:
        return netaddr.IPAddress(v - 1, ver) + 1
    return netaddr.IPAddress(v + 1, ver) - 1


def impl_classify_addr(ver, v):
    import copy
    import netaddr
    objs = [netaddr.IPAddress(_s(ver, v)), netaddr.IPAddress(v, ver)]
    objs.append(copy.copy(objs[1]))
    objs.append(netaddr.IPAddress(objs[0]))
    objs.append(_addr_arith(ver, v))
    for a in objs:
        assert type(a) is netaddr.IPAddress and a.version == ver and a._value == v, "construction failed"
    return _agree(objs)


def impl_classify_net(ver, v, p):
    import copy
    import netaddr
    w = gens.W[ver]
    objs = [netaddr.IPNetwork("%s/%d" % (_s(ver, v), p)), netaddr.IPNetwork((v, p), version=ver)]
    objs.append(copy.copy(objs[1]))
    objs.append(netaddr.IPNetwork(objs[0]))
    size = 1 << (w - p)
    if v % size == 0 and v >= size:
        n = netaddr.IPNetwork((v - size, p), version=ver)
        n += 1
    elif v % size == 0 and v + 2 * size <= 1 << w:
        n = netaddr.IPNetwork((v + size, p), version=ver)
        n -= 1
    else:  # host bits (arithmetic on networks drops them) or no neighbour: reach the state through the setters
        n = netaddr.IPNetwork((v ^ 1, w), version=ver)
        n.value = v
        n.prefixlen = p
    objs.append(n)
    for a in objs:
        assert type(a) is netaddr.IPNetwork and a.version == ver and a._value == v and a._prefixlen == p, \
            "construction failed"
    return _agree(objs)


def impl_classify_range(ver, s, e):
    import copy
    import netaddr
    objs = [netaddr.IPRange(_s(ver, s), _s(ver, e)),
            netaddr.IPRange(netaddr.IPAddress(s, ver), netaddr.IPAddress(e, ver))]
    objs.append(copy.copy(objs[1]))
    objs.append(netaddr.IPRange(_addr_arith(ver, s), _addr_arith(ver, e)))
    for a in objs:
        assert type(a) is netaddr.IPRange and a.version == ver and a._start._value == s and a._end._value == e, \
            "construction failed"
        assert a._start.version == ver and a._end.version == ver
    return _agree(objs)


def _obj(desc):
    import netaddr
    k = desc[0]
    if k == 0:
        return netaddr.IPAddress(desc[2], desc[1])
    if k == 1:
        return netaddr.IPNetwork((desc[2], desc[3]), version=desc[1])
    return netaddr.IPRange(netaddr.IPAddress(desc[2], desc[1]), netaddr.IPAddress(desc[3], desc[1]))


def impl_contains_row(row, obj):
    k, rv, a, b = row
    r = _obj([1, rv, a, b] if k == 0 else [2, rv, a, b])
    res = _obj(obj) in r
    assert res is True or res is False
    return res


def impl_classify_tables():
    import netaddr.ip as m
    from netaddr.ip import IPNetwork, IPRange

    def row(x):
        if type(x) is IPNetwork:
            return [0, x._module.version, x._value, x._prefixlen]
        if type(x) is IPRange:
            return [1, x._module.version, x._start._value, x._end._value]
        raise TypeError("unsupported table entry")
    out = []
    for v in (4, 6):
        for n, single in (("LOOPBACK", True), ("PRIVATE", False), ("LINK_LOCAL", True), ("MULTICAST", True),
                          ("RESERVED", False)):
            t = getattr(m, "IPV%d_%s" % (v, n))
            out.append([row(t)] if single else [row(x) for x in t])
    return out


IMPL = {
    "classify_addr": impl_classify_addr, "classify_net": impl_classify_net, "classify_range": impl_classify_range,
    "contains_row": impl_contains_row, "classify_tables": impl_classify_tables,
}


# ------------------------------------------------------------------ property oracles
def _cmp(what, res, exp):
    if isinstance(res, Exn):
        return "%s: predicate raised %s" % (what, res.name)
    if res and res[0] == "DIFF":
        return "%s: classification depends on how the object was constructed: %r" % (what, res[1:])
    bad = ["is_%s=%r (published blocks say %r)" % (n, a, b) for n, a, b in zip(NAMES, res, exp) if a is not b]
    if bad:
        return "%s: %s" % (what, ", ".join(bad))


def orc_addr(args, res):
    ver, v = args
    return _cmp("IPAddress(%s)" % _s(ver, v), res, expected(ver, v, v))


def orc_net(args, res):
    ver, v, p = args
    size = 1 << (gens.W[ver] - p)
    first = v - v % size
    return _cmp("IPNetwork(%s/%d)" % (_s(ver, v), p), res, expected(ver, first, first + size - 1))


def orc_range(args, res):
    ver, s, e = args
    return _cmp("IPRange(%s, %s)" % (_s(ver, s), _s(ver, e)), res, expected(ver, s, e))


def _span(desc):
    k, ver = desc[0], desc[1]
    if k == 0:
        return ver, desc[2], desc[2]
    if k == 1:
        size = 1 << (gens.W[ver] - desc[3])
        first = desc[2] - desc[2] % size
        return ver, first, first + size - 1
    return ver, desc[2], desc[3]


def orc_contains(args, res):
    row, obj = args
    if isinstance(res, Exn):
        return "`in` raised %s" % res.name
    rv, rf, rl = _span([1] + row[1:] if row[0] == 0 else [2] + row[1:])
    ov, of, ol = _span(obj)
    exp = (rv == ov and rf <= of and ol <= rl)
    if res is not exp:
        return "%r in row %r = %r, interval inclusion says %r" % (obj, row, res, exp)


def orc_tables(args, res):
    """Union of the rows of every table vs the independent blocks: report a concrete differing address."""
    if isinstance(res, Exn):
        return "reading the tables raised %s" % res.name
    order = [(v, n) for v in (4, 6) for n in ("loopback", "private_own", "link_local", "multicast", "reserved")]
    for (ver, name), rows in zip(order, res):
        ivs = []
        for r in rows:
            rv, f, l = _span([1] + r[1:] if r[0] == 0 else [2] + r[1:])
            if rv != ver:
                return "row %r of family %d in the IPv%d %s table" % (r, rv, ver, name)
            ivs.append((f, l))
        want = ORC[ver][name]
        pts = set()
        for lo, hi in ivs + want:
            pts.update((lo - 1, lo, hi, hi + 1))
        for x in sorted(pts):
            a = any(lo <= x <= hi for lo, hi in ivs)
            b = any(lo <= x <= hi for lo, hi in want)
            if a != b:
                return "IPv%d %s table: %s is %s the table but %s the published blocks" % (
                    ver, name, _s(ver, x) if 0 <= x < 2 ** gens.W[ver] else x, "in" if a else "not in",
                    "in" if b else "not in")
        if sorted(ivs) != sorted(want):
            return "IPv%d %s table: rows %r are not the documented blocks %r" % (ver, name, sorted(ivs), sorted(want))


ORACLE = {"classify_addr": orc_addr, "classify_net": orc_net, "classify_range": orc_range,
          "contains_row": orc_contains, "classify_tables": orc_tables}


# ------------------------------------------------------------------ generators
def source_blocks():
    """{ver: [(lo, hi)]} of every row of the CURRENT source tables (empty when they cannot be read)."""
    out = {4: [], 6: []}
    try:
        from harness.gen import classify
        t = classify.tables()
    except Exception:
        return out
    for e in t.values():
        for r in e["rows"]:
            try:
                ver, f, l = _span([1] + r[1:] if r[0] == 0 else [2] + r[1:])
                if ver in out and 0 <= f <= l < 2 ** gens.W[ver]:
                    out[ver].append((f, l))
            except Exception:
                pass
    return out


def all_blocks(ver, src):
    s = set(src[ver])
    for name in ("multicast", "loopback", "link_local", "private_own", "reserved"):
        s.update(ORC[ver][name])
    return sorted(s)


def rand_range(rng, ver):
    a, b = gens.rand_value(rng, ver), gens.rand_value(rng, ver)
    return min(a, b), max(a, b)


def block_cases(rng, ver, blocks, tier):
    w = gens.W[ver]
    mx = 2 ** w - 1

    def ok(x):
        return 0 <= x <= mx
    for lo, hi in blocks:
        for x in (lo - 2, lo - 1, lo, lo + 1, hi - 1, hi, hi + 1, hi + 2, (lo + hi) // 2):
            if ok(x):
                yield ("classify_addr", [ver, x], "edge_addr")
        for x in (lo - 1, lo, hi, hi + 1):
            if not ok(x):
                continue
            for p in range(w + 1):
                yield ("classify_net", [ver, x, p], "edge_net")            # host bits kept for p < w
                size = 1 << (w - p)
                yield ("classify_net", [ver, x - x % size, p], "edge_net")  # the same block without host bits
        for s, e in ((lo, hi), (lo, hi - 1), (lo + 1, hi), (lo - 1, hi), (lo, hi + 1), (lo - 1, hi + 1), (lo - 1, lo),
                     (hi, hi + 1), (lo, lo), (hi, hi), (lo - 1, lo - 1), (hi + 1, hi + 1)):
            if ok(s) and ok(e) and s <= e:
                yield ("classify_range", [ver, s, e], "edge_range")
        for _ in range(3 if tier == "quick" else 40):
            a, b = rng.randint(lo, hi), rng.randint(lo, hi)
            yield ("classify_range", [ver, min(a, b), max(a, b)], "inside_range")
            yield ("classify_addr", [ver, a], "inside_addr")
            p = rng.randrange(w + 1)
            yield ("classify_net", [ver, a, p], "inside_net")
    # spanning two consecutive blocks
    for (lo1, hi1), (lo2, hi2) in zip(blocks, blocks[1:]):
        for s, e in ((lo1, hi2), (hi1, lo2), (lo1, lo2), (hi1, hi2), (hi1 + 1, lo2 - 1), (hi1 + 1, lo2)):
            if ok(s) and ok(e) and s <= e:
                yield ("classify_range", [ver, s, e], "span_range")
        # the smallest network holding hi1 and lo2, its parent and its children
        q = w - (hi1 ^ lo2).bit_length()
        for p in (q - 1, q, q + 1):
            if 0 <= p <= w:
                yield ("classify_net", [ver, hi1, p], "span_net")
                yield ("classify_net", [ver, lo2, p], "span_net")


def rand_obj(rng, ver, base, bits):
    """A random address / network (maybe with host bits) / range inside [base, base + 2^bits)."""
    w = gens.W[ver]
    k = rng.randrange(3)
    if k == 0:
        return [0, ver, base + rng.randrange(1 << bits)]
    if k == 1:
        p = rng.randint(max(0, w - bits - 1), w)
        v = base + rng.randrange(1 << bits)
        if rng.random() < 0.6:
            size = 1 << (w - p)
            v -= v % size
        return [1, ver, v, p]
    a, b = base + rng.randrange(1 << bits), base + rng.randrange(1 << bits)
    return [2, ver, min(a, b), max(a, b)]


def contains_cases(rng, tier):
    n_arena = 5000 if tier == "quick" else 150000
    arenas = [(4, 0, 5), (4, 2 ** 32 - 32, 5), (4, 0xEF000000 - 16, 5), (6, 0, 5), (6, 2 ** 128 - 32, 5),
              (6, (0xFE80 << 112) - 16, 5), (4, 0x0A000000, 8)]
    for _ in range(n_arena):
        ver, base, bits = rng.choice(arenas)
        r = rand_obj(rng, ver, base, bits)
        while r[0] == 0:
            r = rand_obj(rng, ver, base, bits)
        o = rand_obj(rng, ver, base, bits)
        if rng.random() < 0.03:     # other family: always False
            over = 6 if ver == 4 else 4
            o = rand_obj(rng, over, 0, 5)
        yield ("contains_row", [[0 if r[0] == 1 else 1] + r[1:], o], "contains_arena")
    n_full = 3000 if tier == "quick" else 100000
    for _ in range(n_full):
        ver = rng.choice((4, 6))
        w = gens.W[ver]
        mx = 2 ** w - 1
        if rng.random() < 0.5:
            _, v, p = gens.rand_block(rng, ver)
            row = [0, ver, v, p]
            size = 1 << (w - p)
            f = v - v % size
            l = f + size - 1
        else:
            f, l = rand_range(rng, ver)
            row = [1, ver, f, l]
        # operand derived from the row: edges, inside, straddling, sub/super blocks
        k = rng.randrange(5)
        if k == 0:
            x = rng.choice((f - 1, f, l, l + 1, rng.randint(f, l)))
            o = [0, ver, max(0, min(mx, x))]
        elif k == 1:
            s = rng.choice((f - 1, f, f + 1, rng.randint(f, l)))
            e = rng.choice((l - 1, l, l + 1, rng.randint(f, l)))
            s, e = max(0, min(mx, s)), max(0, min(mx, e))
            o = [2, ver, min(s, e), max(s, e)]
        elif k == 2 and row[0] == 0:
            p2 = max(0, min(w, row[3] + rng.choice((-2, -1, 0, 0, 1, 2, rng.randrange(w + 1) - row[3]))))
            o = [1, ver, rng.choice((v, f, l, rng.randint(f, l))), p2]
        else:
            x = rng.choice((f, l, rng.randint(f, l), max(0, f - 1), min(mx, l + 1)))
            p2 = rng.randrange(w + 1)
            if rng.random() < 0.5:   # the exact prefix of the row's span when it is a power-of-two sized run
                p2 = max(0, min(w, w - (l - f + 1).bit_length() + rng.choice((0, 1, 2))))
            if rng.random() < 0.5:
                x -= x % (1 << (w - p2))
            o = [1, ver, x, p2]
        yield ("contains_row", [row, o], "contains_full")


def cases(rng, tier):
    src = source_blocks()
    for ver in (4, 6):
        for c in block_cases(rng, ver, all_blocks(ver, src), tier):
            yield c
    nrand = 2500 if tier == "quick" else 100000
    for ver in (4, 6):
        w = gens.W[ver]
        for v in gens.values(rng, ver, nrand):
            yield ("classify_addr", [ver, v], "rand_addr")
        for _ in range(nrand):
            _, v, p = gens.rand_block(rng, ver)
            yield ("classify_net", [ver, v, p], "rand_net")
            s, e = rand_range(rng, ver)
            yield ("classify_range", [ver, s, e], "rand_range")
            # top-octet / top-hextet neighbourhoods, where all the blocks live
            top = rng.randrange(256) << (w - 8)
            v2 = top + (rng.getrandbits(w - 8) if rng.random() < 0.5 else rng.choice((0, 1, (1 << (w - 8)) - 1)))
            yield ("classify_addr", [ver, v2], "rand_top_addr")
            yield ("classify_net", [ver, v2, rng.randrange(0, 17)], "rand_top_net")
    for c in contains_cases(rng, tier):
        yield c
    yield ("classify_tables", [], "tables")


# ---- object-lifecycle checks (harness/lifecycle.py): objects with a history behave like fresh ones, results do not
# alias operands, failed mutators change nothing.  The functional model has no hidden state: its answer is "no discrepancy".
from harness import lifecycle as _life
IMPL.update(_life.IMPL)
ORACLE.update(_life.ORACLE)
EXACT = tuple(EXACT) + ("life",)
RULE = RULE + " | lifecycle: observe-mutate-observe vs a fresh object, aliasing of results, failure atomicity (addr, glob, net, range)"
_cases_without_life = cases


def cases(rng, tier):
    yield from _cases_without_life(rng, tier)
    yield from _life.cases(rng, tier, {'addr', 'glob', 'net', 'range'})
