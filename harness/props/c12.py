"""C12 — equality, hashing, ordering and pickling of IP objects are coherent."""
from harness import gens
from harness.wire import Exn

PROP = "C12"
THEOREM_FILE = "Props/C12.v"
EXTRA_THEOREM_FILES = ["Props/C12_src.v"]     # source tie: translated source = model (DESIGN 5.1b)
EXTRA_THEOREM_FILES += ["Props/C12_src_state.v"]     # source tie of __getstate__ / __setstate__ and IPRange.__init__
EXTRA_THEOREM_FILES.append("Props/C12_src_cmp.v")     # (SRCE) source tie of the rich comparisons, __hash__, IPRange.sort_key
EXTRA_THEOREM_FILES.append("Props/C12_code.v")     # (CODA) code-level theorems: the property about the regenerated definitions
EXTRA_THEOREM_FILES.append("Props/C12_src_g.v")     # SRCG: core.num_bits, both definitions
RULE = ("objects: per arena (8 arenas of harness/gens.py + one cross-family arena with the same integers in IPv4 and "
        "IPv6) a pool built from the arena block, a nested chain of blocks around a random address and other blocks; "
        "each block gives IPNetwork with/without host bits, IPAddress first/last/first-1/last+1, IPRange equal to the "
        "block / one shorter / one longer / same start other end, IPGlob (IPv4) of the block; c12_cmp: ALL ordered "
        "pairs of a pool among {IPAddress, IPNetwork} and among {IPRange, IPGlob} (six comparisons both ways + hash); "
        "c12_eqh: all other (mixed) pairs for ==, != and hash only; c12_triple: all triples of a sub-pool; c12_sorted: "
        "random sub-lists and a random permutation of them through the real sorted(); c12_roundtrip: REAL "
        "pickle.dumps/loads protocols 0-5, copy.copy, copy.deepcopy of every pool object, of IPSets (mixed families, "
        "history-ordered dict) and of EUI-48/EUI-64 in every built-in dialect; c12_setstate / c12_ipset_setstate / "
        "c12_eui_setstate: valid and malformed states (wrong length, bad version, prefix/value out of range, duplicate "
        "and equal-key CIDRs); c12_keys, c12_getstate on every pool object; c12_num_bits on 0, 2^k, 2^k+-1, random")
EXACT = ("c12_cmp", "c12_eqh", "c12_triple", "c12_sorted", "c12_roundtrip", "c12_keys", "c12_num_bits", "c12_getstate")
TRUSTED = ["CPython's pickle / copyreg / copy machinery and tuple hashing (modelled as: new object of the same class, "
           "__setstate__(__getstate__(x)); hash an arbitrary function of key()) - exercised for real by c12_roundtrip"]

W = gens.W

MAC_DIALECTS = ["mac_eui48", "mac_unix", "mac_unix_expanded", "mac_cisco", "mac_bare", "mac_pgsql"]
EUI64_DIALECTS = ["eui64_base", "eui64_unix", "eui64_unix_expanded", "eui64_cisco", "eui64_bare"]
DIALECTS = MAC_DIALECTS + EUI64_DIALECTS


# ------------------------------------------------------------------ implementation adapters
def _octets(v):
    return [(v >> 24) & 255, (v >> 16) & 255, (v >> 8) & 255, v & 255]


def glob_text(s, e):
    """Glob spelling of a glob-shaped IPv4 range (fixed octets, at most one x-y octet, then stars)."""
    so, eo = _octets(s), _octets(e)
    out = []
    for a, b in zip(so, eo):
        if a == b:
            out.append(str(a))
        elif a == 0 and b == 255:
            out.append("*")
        else:
            out.append("%d-%d" % (a, b))
    return ".".join(out)


def _mk(o):
    import netaddr
    tag = o[0]
    if tag == "A":
        x = netaddr.IPAddress(o[2], o[1])
        assert x._value == o[2] and x.version == o[1]
    elif tag == "N":
        x = netaddr.IPNetwork((o[2], o[3]), version=o[1])
        assert x._value == o[2] and x._prefixlen == o[3] and x.version == o[1]
    elif tag == "R":
        x = netaddr.IPRange(netaddr.IPAddress(o[2], o[1]), netaddr.IPAddress(o[3], o[1]))
        assert x._start._value == o[2] and x._end._value == o[3] and x.version == o[1]
    elif tag == "G":
        assert o[1] == 4
        x = netaddr.IPGlob(glob_text(o[2], o[3]))
        assert x._start._value == o[2] and x._end._value == o[3], "glob generator produced a non-glob range"
    elif tag == "S":
        x = netaddr.IPSet()
        for ver, v, p in o[1]:
            x.add(netaddr.IPNetwork((v, p), version=ver))
        assert [[c.version, c._value, c._prefixlen] for c in x._cidrs] == [list(t) for t in o[1]], \
            "IPSet generator produced mergeable blocks"
    elif tag == "E":
        x = netaddr.EUI(o[2], version=o[1], dialect=getattr(netaddr, DIALECTS[o[3]]))
        assert x._value == o[2] and x.version == o[1]
    else:
        raise AssertionError("bad tag")
    return x


def _enc(y, glob_as_range=False):
    import netaddr
    if isinstance(y, netaddr.IPGlob):
        return ["R" if glob_as_range else "G", y._module.version, y._start._value, y._end._value]
    if isinstance(y, netaddr.IPRange):
        return ["R", y._module.version, y._start._value, y._end._value]
    if isinstance(y, netaddr.IPNetwork):
        return ["N", y._module.version, y._value, y._prefixlen]
    if isinstance(y, netaddr.IPAddress):
        return ["A", y._module.version, y._value]
    if isinstance(y, netaddr.IPSet):
        return ["S", [[c._module.version, c._value, c._prefixlen] for c in y._cidrs]]
    if isinstance(y, netaddr.EUI):
        names = [n for n in DIALECTS if getattr(netaddr, n) is y.dialect]
        return ["E", y._module.version, y._value, DIALECTS.index(names[0]) if names else -1]
    raise AssertionError("unexpected object %r" % (y,))


def _b(v):
    assert v is True or v is False, "comparison returned %r" % (v,)
    return v


class _Foreign(object):
    pass


def _foreign(x):
    """equal objects must have equal hashes, so an IP object cannot equal an object of a foreign type (whose hash is its own)"""
    o = _Foreign()
    assert (x == o) is False and (x != o) is True, "%r compares equal to a foreign object" % (x,)


def impl_cmp(a, b):
    x, y = _mk(a), _mk(b)
    _foreign(x)
    return [_b(x == y), _b(x != y), _b(x < y), _b(x <= y), _b(x > y), _b(x >= y),
            (not (x == y)) or hash(x) == hash(y), _b(y == x), _b(y <= x)]


def impl_eqh(a, b):
    x, y = _mk(a), _mk(b)
    return [_b(x == y), _b(x != y), (not (x == y)) or hash(x) == hash(y), _b(y == x)]


def impl_triple(a, b, c):
    x, y, z = _mk(a), _mk(b), _mk(c)
    return [_b(x <= y), _b(y <= z), _b(x <= z), _b(x < y), _b(y < z), _b(x < z),
            _b(x == y), _b(y == z), _b(x == z)]


def impl_keys(a):
    x = _mk(a)
    k, sk = x.key(), x.sort_key()
    assert isinstance(k, tuple) and isinstance(sk, tuple)
    assert hash(x) == hash(k), "__hash__ is not hash(key())"
    return [list(k), list(sk)]


def impl_num_bits(n):
    from netaddr.core import num_bits
    return num_bits(n)


def impl_sorted(l, perm):
    xs = [_mk(o) for o in l]
    ys = [xs[i] for i in perm]
    return [[_enc(o, True) for o in sorted(xs)], [_enc(o, True) for o in sorted(ys)]]


def impl_getstate(a):
    st = _mk(a).__getstate__()
    assert isinstance(st, tuple)
    return list(st)


_CLS = {"A": "IPAddress", "N": "IPNetwork", "R": "IPRange", "G": "IPGlob"}


def impl_setstate(tag, state):
    import netaddr
    cls = getattr(netaddr, _CLS[tag])
    o = cls.__new__(cls)
    o.__setstate__(tuple(state))
    return _enc(o)


def impl_ipset_setstate(state):
    import netaddr
    s = netaddr.IPSet.__new__(netaddr.IPSet)
    s.__setstate__(tuple(tuple(t) for t in state))
    return _enc(s)[1]


def impl_eui_setstate(state):
    import netaddr
    e = netaddr.EUI.__new__(netaddr.EUI)
    st = list(state)
    if len(st) >= 3:
        st[2] = getattr(netaddr, DIALECTS[st[2]])
    e.__setstate__(tuple(st))
    return _enc(e)[1:]


def impl_roundtrip(o, how):
    import pickle
    import copy
    import netaddr
    x = _mk(o)
    if how <= 5:
        y = pickle.loads(pickle.dumps(x, how))
    elif how == 6:
        y = copy.copy(x)
    else:
        y = copy.deepcopy(x)
    assert y is not x
    if isinstance(x, netaddr.IPSet):
        def unhashable(s):
            try:
                hash(s)
            except TypeError:
                return True
            return False
        same_hash = unhashable(x) and unhashable(y)      # IPSet is unhashable by design
    else:
        same_hash = hash(x) == hash(y)
    same_cls = type(x) is type(y)
    if isinstance(x, netaddr.EUI):
        same_cls = same_cls and (x.dialect is y.dialect)
    if isinstance(x, netaddr.IPGlob):
        same_cls = same_cls and (x.glob == y.glob) and y.glob == glob_text(o[2], o[3])
    return [_enc(y), str(x) == str(y) and repr(x) == repr(y), _b(x == y) and not _b(x != y), same_hash, same_cls]


IMPL = {
    "c12_cmp": impl_cmp, "c12_eqh": impl_eqh, "c12_triple": impl_triple, "c12_keys": impl_keys,
    "c12_num_bits": impl_num_bits, "c12_sorted": impl_sorted, "c12_getstate": impl_getstate,
    "c12_setstate": impl_setstate, "c12_ipset_setstate": impl_ipset_setstate, "c12_eui_setstate": impl_eui_setstate,
    "c12_roundtrip": impl_roundtrip,
}


# ------------------------------------------------------------------ property oracles (direct integer arithmetic)
def facts(o):
    """(is_block, ver, first, last, plen or None)"""
    tag, ver = o[0], o[1]
    if tag == "A":
        return (False, ver, o[2], o[2], None)
    if tag == "N":
        h = 2 ** (W[ver] - o[3])
        first = o[2] - o[2] % h
        return (True, ver, first, first + h - 1, o[3])
    return (True, ver, o[2], o[3], None)


def expected_eq(a, b):
    fa, fb = facts(a), facts(b)
    if fa[0] != fb[0]:
        return False                      # an address never equals a block
    return fa[1:4] == fb[1:4]             # same version, first, last (an address: its value)


def must_precede(a, b):
    """True when the property statement says a sorts strictly before b."""
    fa, fb = facts(a), facts(b)
    if fa[1] != fb[1]:
        return fa[1] < fb[1]              # IPv4 before IPv6
    if fa[2] != fb[2]:
        return fa[2] < fb[2]              # lower first address first
    if a[0] == "N" and b[0] == "N":       # same first: the strictly enclosing network first
        return fa[3] > fb[3]
    if a[0] == "N" and b[0] == "A":       # an address after every network starting at it
        return True
    return False


def orc_cmp(args, res):
    a, b = args
    if isinstance(res, Exn):
        return "comparison raised %s" % res.name
    eq, ne, lt, le, gt, ge, himp, req, rle = res
    exp = expected_eq(a, b)
    if eq != exp:
        return "== is %r but (version, first, last) say %r" % (eq, exp)
    if ne != (not eq) or req != eq:
        return "!= / reversed == incoherent with =="
    if not himp:
        return "equal objects with different hashes"
    if not (le or rle):
        return "order not total: neither a<=b nor b<=a"
    if lt != (not rle) or gt != (not le) or ge != rle or le != (lt or (le and rle)):
        return "the six comparisons are not one preorder"
    if a == b and not (le and ge and not lt and not gt):
        return "order not reflexive"
    if must_precede(a, b) and not (lt and le and not gt and not ge):
        return "a must sort strictly before b"
    if must_precede(b, a) and not (gt and ge and not lt and not le):
        return "b must sort strictly before a"


def orc_eqh(args, res):
    a, b = args
    if isinstance(res, Exn):
        return "comparison raised %s" % res.name
    eq, ne, himp, req = res
    exp = expected_eq(a, b)
    if eq != exp:
        return "== is %r but (version, first, last) say %r" % (eq, exp)
    if ne != (not eq) or req != eq:
        return "!= / reversed == incoherent with =="
    if not himp:
        return "equal objects with different hashes"


def orc_triple(args, res):
    if isinstance(res, Exn):
        return "comparison raised %s" % res.name
    lxy, lyz, lxz, sxy, syz, sxz, exy, eyz, exz = res
    if lxy and lyz and not lxz:
        return "<= not transitive"
    if sxy and syz and not sxz:
        return "< not transitive"
    if (sxy and lyz and not sxz) or (lxy and syz and not sxz):
        return "< / <= chain not transitive"
    if exy and eyz and not exz:
        return "== not transitive"


def orc_keys(args, res):
    (a,) = args
    if isinstance(res, Exn):
        return "key() raised %s" % res.name
    k, sk = res
    isb, ver, first, last, _ = facts(a)
    if k != ([ver, first, last] if isb else [ver, first]):
        return "key() is not (version, first, last) / (version, value)"
    if sk[:2] != [ver, first]:
        return "sort_key() does not start with (version, first address)"


def orc_num_bits(args, res):
    (n,) = args
    if isinstance(res, Exn):
        return "num_bits raised"
    m = abs(n)
    if (m == 0 and res != 0) or (m > 0 and not (2 ** (res - 1) <= m < 2 ** res)):
        return "num_bits(%d) = %r is not the bit length" % (n, res)


def _proj(o):
    isb, ver, first, last, p = facts(o)
    if o[0] == "R":
        return ("R", ver, first, (last - first + 1).bit_length())
    return tuple(o)


def orc_sorted(args, res):
    l, perm = args
    if isinstance(res, Exn):
        return "sorted() raised %s" % res.name
    s1, s2 = res
    norm = sorted(repr(["R"] + o[1:] if o[0] == "G" else o) for o in l)
    for s in (s1, s2):
        if sorted(repr(o) for o in s) != norm:
            return "sorted() output is not a permutation of its input"
        for x, y in zip(s, s[1:]):
            if must_precede(y, x):
                return "sorted() output out of order: %r before %r" % (x, y)
    if [_proj(o) for o in s1] != [_proj(o) for o in s2]:
        return "sorted() depends on the input order"


def orc_roundtrip(args, res):
    o, how = args
    if isinstance(res, Exn):
        return "pickle/copy raised %s" % res.name
    y, same_str, eq, same_hash, same_cls = res
    if y != o:
        return "restored object has other fields: %r" % (y,)
    if not same_str:
        return "str()/repr() changed"
    if not eq:
        return "restored object does not compare equal"
    if not same_hash:
        return "hash changed"
    if not same_cls:
        return "class / dialect / glob changed"


def orc_getstate(args, res):
    (o,) = args
    if isinstance(res, Exn):
        return "__getstate__ raised"
    if sorted(res) != sorted(o[1:]):
        return "state does not hold exactly the object's fields"


def _state_ok(tag, st):
    if tag == "A":
        return len(st) == 2 and st[1] in (4, 6)
    if tag == "N":
        return len(st) == 3 and st[2] in (4, 6) and 0 <= st[1] <= W[st[2]]
    return len(st) == 3 and st[2] in (4, 6) and all(0 <= v <= 2 ** W[st[2]] - 1 for v in st[:2])


def orc_setstate(args, res):
    tag, st = args
    ok = _state_ok(tag, st)
    if isinstance(res, Exn):
        if ok:
            return "well-formed state rejected with %s" % res.name
        if res.name not in ("ValueError", "AddrFormatError"):
            return "malformed state raised %s" % res.name
        return None
    if not ok:
        return "malformed state accepted"
    exp = [tag, st[-1]] + list(st[:-1])
    if res != exp:
        return "restored fields %r differ from the state" % (res,)


ORACLE = {
    "c12_cmp": orc_cmp, "c12_eqh": orc_eqh, "c12_triple": orc_triple, "c12_keys": orc_keys,
    "c12_num_bits": orc_num_bits, "c12_sorted": orc_sorted, "c12_roundtrip": orc_roundtrip,
    "c12_getstate": orc_getstate, "c12_setstate": orc_setstate,
}


# ------------------------------------------------------------------ generators
def block_glob_range(first, p):
    """(s, e) of an aligned IPv4 block: always glob-shaped."""
    return first, first + 2 ** (32 - p) - 1


def block_objects(rng, ver, first, p):
    w = W[ver]
    mx = 2 ** w - 1
    size = 2 ** (w - p)
    last = first + size - 1
    out = [["N", ver, first, p], ["A", ver, first], ["A", ver, last], ["R", ver, first, last], ["R", ver, first, first]]
    if size > 1:
        out.append(["N", ver, first + rng.randrange(1, size), p])
        out.append(["N", ver, last, p])
        out.append(["R", ver, first, last - 1])
        out.append(["R", ver, first + 1, last])
    if first > 0:
        out.append(["A", ver, first - 1])
        out.append(["R", ver, first - 1, last])
    if last < mx:
        out.append(["A", ver, last + 1])
        out.append(["R", ver, first, last + 1])
    if ver == 4:
        out.append(["G", 4, first, last])
        if size >= 4 and p >= 24:
            a = first + rng.randrange(size // 2)
            out.append(["G", 4, a, a + rng.randrange(1, size // 2)])     # x-y in the last octet
    return out


def arena_pool(rng, arena, nblocks, size):
    ver, base, ap = arena
    w = W[ver]
    span = 2 ** (w - ap)
    blocks = [(base, ap)]
    for j in range(2):
        t = base + (rng.randrange(span) if span <= 256 or rng.random() < 0.5 else
                    (gens.rand_value(rng, ver) if ap == 0 else rng.randrange(span)))
        ps = set([w]) if j == 0 else set()
        while len(ps) < (nblocks - 1) // 2 + (1 - j):
            ps.add(rng.randint(ap, w))
        for p in sorted(ps):
            h = 2 ** (w - p)
            blocks.append((t - t % h, p))
    objs, seen = [], set()
    for first, p in blocks:
        for o in block_objects(rng, ver, first, p):
            k = repr(o)
            if k not in seen:
                seen.add(k)
                objs.append(o)
    if len(objs) > size:
        keep = objs[:8] + rng.sample(objs[8:], size - 8)
        objs = keep
    return objs


def transpose6(o):
    """The same integers as an IPv6 object (prefix shifted by 96)."""
    if o[0] == "A":
        return ["A", 6, o[2]]
    if o[0] == "N":
        return ["N", 6, o[2], o[3] + 96]
    return ["R", 6, o[2], o[3]]


def orderable(a, b):
    ca = a[0] in ("A", "N")
    cb = b[0] in ("A", "N")
    return ca == cb


def rand_ipset(rng):
    """Disjoint, pairwise non-adjacent aligned blocks of both families in a random (history) order."""
    out = []
    for ver in (4, 6):
        w = W[ver]
        arena = rng.choice([a for a in gens.ARENAS if a[0] == ver])
        _, base, ap = arena
        span = 2 ** (w - ap)
        used = []
        for _ in range(rng.randint(0, 5)):
            p = rng.randint(max(ap, w - 8) if span <= 256 else rng.choice([1, 8, w - 8, w - 1, w]), w)
            p = max(p, 1)
            h = 2 ** (w - p)
            t = base + rng.randrange(span) if span <= 256 else gens.rand_value(rng, ver)
            first = t - t % h
            last = first + h - 1
            if all(last + 1 < f or l + 1 < first for f, l in used):
                used.append((first, last))
                out.append([ver, first, p])
    rng.shuffle(out)
    return out


def malformed_states(rng):
    for tag in ("A", "N", "R"):
        for ver in (4, 6, 0, 5, 46, -4, 64):
            w = W.get(ver, 32)
            vals = [0, 1, 2 ** w - 1, 2 ** w, -1, rng.getrandbits(w)]
            if tag == "A":
                for v in vals:
                    yield tag, [v, ver]
            elif tag == "N":
                for v in vals[:4]:
                    for p in (0, 1, w - 1, w, w + 1, -1, 33, 128, 129, rng.randint(0, w)):
                        yield tag, [v, p, ver]
            else:
                for s in vals:
                    for e in (s, s + 1, s - 1, 2 ** w - 1, 2 ** w, 0, -1):
                        yield tag, [s, e, ver]
        for n in (0, 1, 2, 3, 4, 5):
            yield tag, [rng.randrange(8) for _ in range(n - 1)] + ([4] if n else [])
    yield "G", [0x0A000000, 0x0A0000FF, 4]
    yield "G", [0x0A000000, 0x0A03FFFF, 4]
    yield "G", [5, 5, 4]


def cases(rng, tier):
    quick = tier == "quick"
    pool_size = 60 if quick else 90
    pools = []
    for arena in gens.ARENAS:
        pools.append(arena_pool(rng, arena, 6 if quick else 8, pool_size))
    # cross-family arena: the same integers as IPv4 and as IPv6 objects
    base4 = arena_pool(rng, gens.ARENAS[rng.randrange(3)], 4, 30 if quick else 45)
    cross = base4 + [transpose6(o) for o in base4]
    pools.append(cross)
    if not quick:
        for _ in range(3):
            for arena in gens.ARENAS:
                pools.append(arena_pool(rng, arena, 8, pool_size))
    for ix, pool in enumerate(pools):
        tag = "arena%d" % ix
        for a in pool:
            yield ("c12_keys", [a], "keys")
            yield ("c12_getstate", [a], "getstate")
            for b in pool:
                if orderable(a, b):
                    yield ("c12_cmp", [a, b], "cmp_" + tag)
                else:
                    yield ("c12_eqh", [a, b], "eqh_" + tag)
        # triples (transitivity) over a sub-pool of each orderable kind
        for kind in (("A", "N"), ("R", "G")):
            sub = [o for o in pool if o[0] in kind]
            k = 12 if quick else 30
            if len(sub) > k:
                sub = rng.sample(sub, k)
            for a in sub:
                for b in sub:
                    for c in sub:
                        yield ("c12_triple", [a, b, c], "triple")
        # sorted() on random sub-lists and a random permutation of them
        nsort = 300 if quick else 4000
        for _ in range(nsort):
            kind = ("A", "N") if rng.random() < 0.7 else ("R", "G")
            sub = [o for o in pool if o[0] in kind]
            n = rng.randint(0, min(14, len(sub)))
            l = [rng.choice(sub) for _ in range(n)] if rng.random() < 0.3 else rng.sample(sub, n)
            perm = list(range(n))
            rng.shuffle(perm)
            yield ("c12_sorted", [l, perm], "sorted")
        # real pickle / copy / deepcopy
        for a in (pool if not quick else rng.sample(pool, min(len(pool), 30))):
            for how in range(8):
                yield ("c12_roundtrip", [a, how], "roundtrip_ip")
    # false-looking states: the empty IPSet (state () is false: protocols 0/1 used to drop it, F-C12-1) and all-zero
    # objects of every class, through every protocol and both copy functions
    zeros = [["S", []], ["A", 4, 0], ["A", 6, 0], ["N", 4, 0, 0], ["N", 6, 0, 0], ["R", 4, 0, 0], ["R", 6, 0, 0],
             ["G", 4, 0, 0], ["G", 4, 0, 2 ** 32 - 1], ["S", [[4, 0, 32]]], ["S", [[6, 0, 128]]], ["S", [[4, 0, 32], [6, 0, 128]]]]
    zeros += [["E", 48, 0, d] for d in range(len(MAC_DIALECTS))]
    zeros += [["E", 64, 0, len(MAC_DIALECTS) + d] for d in range(len(EUI64_DIALECTS))]
    for o in zeros:
        for how in range(8):
            yield ("c12_roundtrip", [o, how], "roundtrip_zero")
    yield ("c12_ipset_setstate", [[]], "ipset_state")
    # IPSets and EUIs through pickle / copy
    for _ in range(120 if quick else 3000):
        yield ("c12_roundtrip", [["S", rand_ipset(rng)], rng.randrange(8)], "roundtrip_ipset")
    for ver, names, off in ((48, MAC_DIALECTS, 0), (64, EUI64_DIALECTS, len(MAC_DIALECTS))):
        mx = 2 ** ver - 1
        vals = [0, 1, mx, mx - 1, 0x001B774954FD, 2 ** 40, 2 ** 24 - 1] + [rng.getrandbits(ver) for _ in range(3 if quick else 60)]
        if ver == 64:
            vals += [2 ** 48, 2 ** 48 - 1, 0x001B77FFFE4954FD]
        for v in vals:
            for d in range(len(names)):
                for how in (range(8) if not quick else rng.sample(range(8), 3)):
                    yield ("c12_roundtrip", [["E", ver, v, off + d], how], "roundtrip_eui")
    # malformed / boundary states straight into __setstate__
    for tag, st in malformed_states(rng):
        yield ("c12_setstate", [tag, st], "setstate")
    for _ in range(150 if quick else 3000):
        st = [[v, p, ver] for ver, v, p in rand_ipset(rng)]
        r = rng.random()
        if st and r < 0.25:
            st.insert(rng.randrange(len(st) + 1), list(rng.choice(st)))            # duplicate CIDR
        elif st and r < 0.45:
            v, p, ver = rng.choice(st)
            st.insert(rng.randrange(len(st) + 1), [v + rng.randrange(2 ** (W[ver] - p)), p, ver])   # equal key, host bits
        elif r < 0.55:
            st.insert(rng.randrange(len(st) + 1), rng.choice([[0, 0, 5], [0, 33, 4], [-1, 0, 4], [2 ** 32, 8, 4],
                                                               [0, 129, 6], [2 ** 128, 0, 6], [1, 2], [1, 2, 4, 4], [0, -1, 6]]))
        yield ("c12_ipset_setstate", [st], "ipset_state")
    for ver in (48, 64, 0, 4, 6, 47, 65):
        for v in (0, 1, 2 ** 48 - 1, 2 ** 48, rng.getrandbits(64)):
            for d in (0, 3, 6, 10):
                yield ("c12_eui_setstate", [[v, ver, d]], "eui_state")
    yield ("c12_eui_setstate", [[1, 48]], "eui_state")
    yield ("c12_eui_setstate", [[1, 48, 0, 0]], "eui_state")
    # num_bits
    for k in range(0, 132):
        for d in (-1, 0, 1):
            yield ("c12_num_bits", [2 ** k + d], "num_bits")
    for _ in range(100 if quick else 3000):
        yield ("c12_num_bits", [rng.getrandbits(rng.randint(1, 130))], "num_bits")
    yield ("c12_num_bits", [-5], "num_bits")


# ---- object-lifecycle checks (harness/lifecycle.py): objects with a history behave like fresh ones, results do not
# alias operands, failed mutators change nothing.  The functional model has no hidden state: its answer is "no discrepancy".
from harness import lifecycle as _life
IMPL.update(_life.IMPL)
ORACLE.update(_life.ORACLE)
EXACT = tuple(EXACT) + ("life",)
RULE = RULE + " | lifecycle: observe-mutate-observe vs a fresh object, aliasing of results, failure atomicity (addr, eui, glob, net, range)"
_cases_without_life = cases


def cases(rng, tier):
    yield from _cases_without_life(rng, tier)
    yield from _life.cases(rng, tier, {'addr', 'eui', 'net', 'glob', 'range'})
