"""C02 — every network's derived attributes satisfy the CIDR bit identities."""
from harness import gens
from harness.wire import Exn

PROP = "C02"
THEOREM_FILE = "Props/C02.v"
EXTRA_THEOREM_FILES = ["Props/C02_src.v"]     # source tie: translated source = model (DESIGN 5.1b)
EXTRA_THEOREM_FILES += ["Props/C02_src_ctor.v"]      # source tie of the netmask setter (int / IPAddress argument)
EXTRA_THEOREM_FILES.append("Props/C02_code.v")     # (CODA) code-level theorems: the property about the regenerated definitions
RULE = ("net_attrs: every prefix 0..width of both families x boundary values (0, 1, max, 2^k, 2^k+-1, max-2^k+-1) and "
        "random dense/sparse/aligned values; net_setops: random setter histories (length<=8: ints in/out of range, "
        "IPAddress objects of both versions, contiguous masks and their +-1 / single-bit corruptions, wrong types); "
        "mask predicates on every contiguous mask, neighbours and corruptions; prefix tables of both families")
EXACT = ("net_attrs", "is_hostmask", "is_netmask", "netmask_bits", "prefix_tables")


def _net(ver, v, p):
    import netaddr
    # "every network", however it was written: the (value, prefix) tuple, CIDR text, address/netmask text or (prefix strictly
    # inside 0..width) address/hostmask text -- chosen from the content; all must build the same object
    w = 32 if ver == 4 else 128
    form = (v * 13 + p * 5 + ver) % 5
    if form == 1:
        n = netaddr.IPNetwork("%s/%d" % (netaddr.IPAddress(v, ver), p))
    elif form == 2:
        n = netaddr.IPNetwork("%s/%s" % (netaddr.IPAddress(v, ver), netaddr.IPAddress((1 << w) - (1 << (w - p)), ver)))
    elif form == 3 and 0 < p < w:
        n = netaddr.IPNetwork("%s/%s" % (netaddr.IPAddress(v, ver), netaddr.IPAddress((1 << (w - p)) - 1, ver)))
    else:
        n = netaddr.IPNetwork((v, p), version=ver)
    assert n._value == v and n._prefixlen == p and n.version == ver, "built %r for value %#x prefix %d" % (n, v, p)
    return n


def _attrs(n):
    b = n.broadcast
    c = n.cidr
    return [int(n.ip), int(n.network), None if b is None else int(b), n.first, n.last, int(n.netmask),
            int(n.hostmask), n.size, [c._value, c._prefixlen]]


def impl_net_attrs(ver, v, p):
    n = _net(ver, v, p)
    b = n.broadcast
    c = n.cidr
    assert n.ip.version == ver and n.network.version == ver and n.netmask.version == ver and n.hostmask.version == ver
    assert c.version == ver
    return [int(n.ip), int(n.network), None if b is None else int(b), n.first, n.last, int(n.netmask),
            int(n.hostmask), n.size, [c._value, c._prefixlen]]


class _Idx(object):
    """an object that is integral only through __index__ (numpy integers, ctypes-free wrappers ..): not an int for the setters"""
    def __init__(self, n):
        self.n = n

    def __index__(self):
        return self.n


def _arg(a):
    import netaddr
    if isinstance(a, list) and a and a[0] == "idx":
        return _Idx(a[1])
    if isinstance(a, list):
        return netaddr.IPAddress(a[1], a[0])
    if a is None:
        return None
    if isinstance(a, str):
        return a
    return a


def impl_net_setops(ver, v, p, ops):
    n = _net(ver, v, p)
    out = []
    _attrs(n)          # read every attribute once before the first assignment (anything cached must not survive a setter)
    for name, a in ops:
        before = (n.version, n._value, n._prefixlen)
        e = None
        try:
            setattr(n, name, _arg(a))
        except Exception as ex:  # noqa
            from harness.wire import exn_of
            e = exn_of(ex)
        out.append([[n.version, n._value, n._prefixlen], e, _attrs(n)])
    return out


def impl_masks(name):
    def f(*args):
        import netaddr
        if name == "is_hostmask":
            (v,) = args
            ver = 4 if v <= 2 ** 32 - 1 else 6
            # is_hostmask does not depend on the family for in-range values; use the narrowest family
            return netaddr.IPAddress(v, ver).is_hostmask()
        ver, v = args
        a = netaddr.IPAddress(v, ver)
        return a.is_netmask() if name == "is_netmask" else a.netmask_bits()
    return f


def impl_prefix_tables(ver):
    from netaddr.strategy import ipv4, ipv6
    m = ipv4 if ver == 4 else ipv6
    return [sorted(m.prefix_to_netmask.items()), sorted(m.netmask_to_prefix.items(), key=lambda kv: kv[1]),
            sorted(m.prefix_to_hostmask.items()), sorted(m.hostmask_to_prefix.items(), key=lambda kv: kv[1])]


IMPL = {
    "net_attrs": impl_net_attrs,
    "net_setops": impl_net_setops,
    "is_hostmask": impl_masks("is_hostmask"),
    "is_netmask": impl_masks("is_netmask"),
    "netmask_bits": impl_masks("netmask_bits"),
    "prefix_tables": impl_prefix_tables,
}


# ---- property oracles (the statement itself, evaluated on the implementation's output)
def orc_net_attrs(args, res):
    ver, v, p = args
    if isinstance(res, Exn):
        return "attribute access raised %s" % res.name
    w = gens.W[ver]
    H = 2 ** (w - p)
    first = v - v % H
    exp = [v, first, None if (ver == 4 and p >= 31) else first + H - 1, first, first + H - 1,
           2 ** w - H, H - 1, H, [first, p]]
    names = ["ip", "network", "broadcast", "first", "last", "netmask", "hostmask", "size", "cidr"]
    bad = [n for n, a, b in zip(names, res, exp) if a != b]
    if bad:
        return "CIDR identity fails for %s" % ",".join(bad)


def orc_net_setops(args, res):
    ver, v, p, ops = args
    if isinstance(res, Exn):
        return "harness-level failure %s" % res.name
    cur = [ver, v, p]
    w = gens.W[ver]
    for (name, a), (post, e, attrs) in zip(ops, res):
        m = orc_net_attrs(post, attrs)
        if m:
            return "after %s setter: %s" % (name, m)
        if e is not None:
            if e.name not in ("AddrFormatError", "ValueError", "TypeError"):
                return "setter %s raised %s" % (name, e.name)
            if post != cur:
                return "failed setter %s changed the object" % name
            # a valid argument must be accepted (plain ints / an address of the own family; other argument kinds may be refused)
            ai = a[1] if (isinstance(a, list) and len(a) == 2 and a[0] == ver) else a
            if isinstance(ai, int) and not isinstance(ai, bool):
                if name == "value" and isinstance(a, int) and 0 <= ai <= 2 ** w - 1:
                    return "value setter refused the in-range integer %#x with %s" % (ai, e.name)
                if name == "prefixlen" and isinstance(a, int) and 0 <= ai <= w:
                    return "prefixlen setter refused the valid prefix %d with %s" % (ai, e.name)
                # (a bare int is read as IPAddress(int): IPv4 below 2^32, so an IPv6 network must refuse those)
                same_family = isinstance(a, list) or (ver == 4 and ai < 2 ** 32) or (ver == 6 and ai >= 2 ** 32)
                if name == "netmask" and same_family and any(ai == 2 ** w - 2 ** (w - q) for q in range(w + 1)):
                    return "netmask setter refused the contiguous netmask %#x with %s" % (ai, e.name)
        else:
            if not (post[0] == ver and 0 <= post[1] <= 2 ** w - 1 and 0 <= post[2] <= w):
                return "setter %s left an ill-formed object %r" % (name, post)
            if name == "value" and (post[1] != a or post[2] != cur[2]):
                return "value setter stored something else"
            if name == "prefixlen" and (post[2] != a or post[1] != cur[1]):
                return "prefixlen setter stored something else"
            if name == "netmask":
                m = a[1] if isinstance(a, list) else a
                if post[1] != cur[1] or m != 2 ** w - 2 ** (w - post[2]):
                    return "netmask setter chose a prefix that does not denote the mask"
        cur = post


def orc_mask(kind):
    def f(args, res):
        if isinstance(res, Exn):
            return "%s raised %s" % (kind, res.name)
        if kind == "is_hostmask":
            (v,) = args
            exp = (v + 1) & v == 0
        else:
            ver, v = args
            w = gens.W[ver]
            y = 2 ** w - 1 - v
            isnm = (y + 1) & y == 0
            exp = isnm if kind == "is_netmask" else ((w - (y + 1).bit_length() + 1) if isnm else w)
        if res != exp:
            return "%s%r = %r, expected %r" % (kind, tuple(args), res, exp)
    return f


def orc_tables(args, res):
    (ver,) = args
    w = gens.W[ver]
    if isinstance(res, Exn):
        return "tables raised"
    p2n, n2p, p2h, h2p = res
    exp_n = [[i, 2 ** w - 2 ** (w - i)] for i in range(w + 1)]
    exp_h = [[i, 2 ** (w - i) - 1] for i in range(w + 1)]
    if p2n != exp_n or n2p != [[b, a] for a, b in exp_n] or p2h != exp_h or h2p != [[b, a] for a, b in exp_h]:
        return "prefix/mask tables are not the contiguous masks or not mutually inverse"


ORACLE = {
    "net_attrs": orc_net_attrs, "net_setops": orc_net_setops,
    "is_hostmask": orc_mask("is_hostmask"), "is_netmask": orc_mask("is_netmask"),
    "netmask_bits": orc_mask("netmask_bits"), "prefix_tables": orc_tables,
}


def mask_candidates(rng, ver):
    w = gens.W[ver]
    out = set()
    for p in range(w + 1):
        nm = 2 ** w - 2 ** (w - p)
        hm = 2 ** (w - p) - 1
        for m in (nm, hm):
            out.add(m)
            for d in (-1, 1):
                if 0 <= m + d <= 2 ** w - 1:
                    out.add(m + d)
            for _ in range(2):
                out.add(m ^ (1 << rng.randrange(w)))
    return sorted(out)


def rand_setop(rng, ver):
    w = gens.W[ver]
    k = rng.random()
    if k < 0.3:
        a = rng.choice([rng.getrandbits(w), 0, 2 ** w - 1, 2 ** w, -1, gens.rand_value(rng, ver), None, "x", ["idx", rng.getrandbits(w)]])
        return ["value", a]
    if k < 0.6:
        a = rng.choice([rng.randrange(w + 1), 0, w, w + 1, -1, rng.randrange(w + 1), None, "24", 33 if ver == 4 else 129,
                        ["idx", rng.randrange(w + 1)]])
        return ["prefixlen", a]
    m = rng.choice(mask_candidates(rng, ver))
    r = rng.random()
    if r < 0.45:
        return ["netmask", m]                      # int: version inferred from magnitude
    if r < 0.8:
        return ["netmask", [ver, m]]               # IPAddress of the same family
    if r < 0.9:
        over = 6 if ver == 4 else 4
        ow = gens.W[over]
        return ["netmask", [over, 2 ** ow - 2 ** rng.randrange(ow + 1)]]   # other family
    return ["netmask", rng.choice([-1, 2 ** 128, 2 ** 129 + 5])]


def cases(rng, tier):
    nrand = 6 if tier == "quick" else 120
    for ver in (4, 6):
        w = gens.W[ver]
        vals = gens.values(rng, ver, nrand, cap_boundary=60 if tier == "quick" else None)
        for p in range(w + 1):
            sub = vals if (tier != "quick" or ver == 4) else rng.sample(vals, 30)
            for v in sub:
                yield ("net_attrs", [ver, v, p], "attrs_v%d" % ver)
        for m in mask_candidates(rng, ver):
            yield ("is_netmask", [ver, m], "mask")
            yield ("netmask_bits", [ver, m], "mask")
            yield ("is_hostmask", [m], "mask")
        yield ("prefix_tables", [ver], "tables")
    nh = 1500 if tier == "quick" else 40000
    for _ in range(nh):
        ver = rng.choice((4, 6))
        _, v, p = gens.rand_block(rng, ver)
        ops = [rand_setop(rng, ver) for _ in range(rng.randint(1, 8))]
        yield ("net_setops", [ver, v, p, ops], "history")


# ---- object-lifecycle checks (harness/lifecycle.py): objects with a history behave like fresh ones, results do not
# alias operands, failed mutators change nothing.  The functional model has no hidden state: its answer is "no discrepancy".
from harness import lifecycle as _life
IMPL.update(_life.IMPL)
ORACLE.update(_life.ORACLE)
EXACT = tuple(EXACT) + ("life",)
RULE = RULE + " | lifecycle: observe-mutate-observe vs a fresh object, aliasing of results, failure atomicity (net)"
_cases_without_life = cases


def cases(rng, tier):
    yield from _cases_without_life(rng, tier)
    yield from _life.cases(rng, tier, {'net'})
