"""C16 — IPv4/IPv6 conversion is lossless and refuses what cannot convert."""
from harness import gens
from harness.wire import Exn

PROP = "C16"
THEOREM_FILE = "Props/C16.v"
EXTRA_THEOREM_FILES = ["Props/C16_src.v"]     # source tie: translated source = model (DESIGN 5.1b)
EXTRA_THEOREM_FILES.append("Props/C16_code.v")     # (CODA) code-level theorems: the property about the regenerated definitions
EXTRA_THEOREM_FILES.append("Props/C16_src_g.v")     # SRCG: IPNetwork.ipv4 through the real text round trip
RULE = ("addresses: every IPv4 boundary value (0, 1, max, 2^k, 2^k+-1, max-2^k+-1) and random values; IPv6 values at "
        "0, 2^32-1, 2^32, 0xfffeffffffff, 0xffff00000000, 0xffffffffffff, 0x1000000000000 each +-1, 2^128-1, all IPv6 "
        "boundary values, random values inside ::/96, inside ::ffff:0:0/96, in the gap between them, just above 2^48, "
        "with an embedding pattern in the low 48 bits under non-zero high bits, and arbitrary; each with "
        "ipv4(), ipv6(False), ipv6(True), is_ipv4_mapped, is_ipv4_compat, x.ipv6(c).ipv4() and x.ipv4().ipv6(c); "
        "networks: the same values x every prefix 0..32 (IPv4) / 0..128 (IPv6) x ipv4_compatible in {False, True}; "
        "objects are built from integers, results are read back as [version, value(, prefixlen)] or the exception class")
EXACT = ("c16_is_mapped", "c16_is_compat", "c16_addr_ipv4", "c16_addr_ipv6", "c16_net_ipv4", "c16_net_ipv6",
         "c16_addr_v6v4", "c16_net_v6v4", "c16_addr_v4v6", "c16_net_v4v6")

M = 0xffff00000000          # first address of ::ffff:0:0/96
MH = 0xffffffffffff         # last address of ::ffff:0:0/96
V4MAX = 2 ** 32 - 1         # last address of ::/96


# ---------------------------------------------------------------- implementation adapters
def _addr(ver, v):
    import netaddr
    a = netaddr.IPAddress(v, ver)
    assert a.version == ver and a._value == v
    return a


def _net(ver, v, p):
    import netaddr
    n = netaddr.IPNetwork((v, p), version=ver)
    assert n.version == ver and n._value == v and n._prefixlen == p
    return n


def _oa(r):
    import netaddr
    assert type(r) is netaddr.IPAddress, "not an IPAddress: %r" % (r,)
    return [r.version, r._value]


def _on(r):
    import netaddr
    assert type(r) is netaddr.IPNetwork, "not an IPNetwork: %r" % (r,)
    return [r.version, r._value, r._prefixlen]


def _same_addr(a, ver, v):
    assert (a.version, a._value) == (ver, v), "receiver changed"


def _same_net(n, ver, v, p):
    assert (n.version, n._value, n._prefixlen) == (ver, v, p), "receiver changed"


def impl_is_mapped(ver, v):
    return _addr(ver, v).is_ipv4_mapped()


def impl_is_compat(ver, v):
    return _addr(ver, v).is_ipv4_compat()


def impl_addr_ipv4(ver, v):
    a = _addr(ver, v)
    try:
        return _oa(a.ipv4())
    finally:
        _same_addr(a, ver, v)


def impl_addr_ipv6(ver, v, c):
    a = _addr(ver, v)
    try:
        return _oa(a.ipv6(ipv4_compatible=c) if c else a.ipv6())      # False is the documented default: left out, so the default is exercised
    finally:
        _same_addr(a, ver, v)


def impl_net_ipv4(ver, v, p):
    n = _net(ver, v, p)
    try:
        return _on(n.ipv4())
    finally:
        _same_net(n, ver, v, p)


def impl_net_ipv6(ver, v, p, c):
    n = _net(ver, v, p)
    try:
        return _on(n.ipv6(ipv4_compatible=c) if c else n.ipv6())      # (default left out)
    finally:
        _same_net(n, ver, v, p)


def impl_addr_v6v4(ver, v, c):
    return _oa(_addr(ver, v).ipv6(c).ipv4())


def impl_net_v6v4(ver, v, p, c):
    return _on(_net(ver, v, p).ipv6(c).ipv4())


def impl_addr_v4v6(ver, v, c):
    return _oa(_addr(ver, v).ipv4().ipv6(c))


def impl_net_v4v6(ver, v, p, c):
    return _on(_net(ver, v, p).ipv4().ipv6(c))


IMPL = {
    "c16_is_mapped": impl_is_mapped, "c16_is_compat": impl_is_compat,
    "c16_addr_ipv4": impl_addr_ipv4, "c16_addr_ipv6": impl_addr_ipv6,
    "c16_net_ipv4": impl_net_ipv4, "c16_net_ipv6": impl_net_ipv6,
    "c16_addr_v6v4": impl_addr_v6v4, "c16_net_v6v4": impl_net_v6v4,
    "c16_addr_v4v6": impl_addr_v4v6, "c16_net_v4v6": impl_net_v4v6,
}


# ---------------------------------------------------------------- property oracles
# The statement of C16 evaluated directly with integer comparisons on the two /96 blocks.
REFUSED = Exn("AddrConversionError")


def in_compat(v):
    return 0 <= v <= V4MAX


def in_mapped(v):
    return M <= v <= MH


def spec_ipv6(ver, v, c):
    """(6, value) demanded for x.ipv6(c)."""
    if ver == 4:
        return v if c else M + v            # ::a.b.c.d on request, ::ffff:a.b.c.d otherwise
    return v - M if (c and in_mapped(v)) else v      # identity up to the documented mapped->compatible rewrite


def spec_ipv4(ver, v):
    """value demanded for x.ipv4(), or None when the conversion must be refused."""
    if ver == 4:
        return v
    if in_compat(v):
        return v
    if in_mapped(v):
        return v - M
    return None


def _cmp(what, res, exp):
    if res != exp:
        return "%s gave %r, the property demands %r" % (what, res, exp)


def orc_is(kind):
    def f(args, res):
        ver, v = args
        exp = ver == 6 and (in_mapped(v) if kind == "mapped" else in_compat(v))
        return _cmp("is_ipv4_%s(%d, %#x)" % (kind, ver, v), res, exp)
    return f


def orc_addr_ipv4(args, res):
    ver, v = args
    low = spec_ipv4(ver, v)
    exp = REFUSED if low is None else [4, low]
    if low is not None and low != v % 2 ** 32:
        return "oracle self-check: low 32 bits"
    return _cmp("IPAddress(%#x, %d).ipv4()" % (v, ver), res, exp)


def orc_addr_ipv6(args, res):
    ver, v, c = args
    return _cmp("IPAddress(%#x, %d).ipv6(%r)" % (v, ver, c), res, [6, spec_ipv6(ver, v, c)])


def orc_net_ipv4(args, res):
    ver, v, p = args
    if ver == 4:
        exp = [4, v, p]
    else:
        low = spec_ipv4(6, v)
        exp = REFUSED if (low is None or p < 96) else [4, low, p - 96]
    return _cmp("IPNetwork((%#x, %d), %d).ipv4()" % (v, p, ver), res, exp)


def orc_net_ipv6(args, res):
    ver, v, p, c = args
    exp = [6, spec_ipv6(ver, v, c), p + 96 if ver == 4 else p]
    return _cmp("IPNetwork((%#x, %d), %d).ipv6(%r)" % (v, p, ver, c), res, exp)


def orc_addr_v6v4(args, res):
    ver, v, c = args
    low = spec_ipv4(6, spec_ipv6(ver, v, c))
    if ver == 4 and low != v:
        return "oracle self-check: round trip"
    return _cmp("IPAddress(%#x, %d).ipv6(%r).ipv4()" % (v, ver, c), res, REFUSED if low is None else [4, low])


def orc_net_v6v4(args, res):
    ver, v, p, c = args
    low = spec_ipv4(6, spec_ipv6(ver, v, c))
    p6 = p + 96 if ver == 4 else p
    exp = REFUSED if (low is None or p6 < 96) else [4, low, p6 - 96]
    if ver == 4 and exp != [4, v, p]:
        return "oracle self-check: round trip"
    return _cmp("IPNetwork((%#x, %d), %d).ipv6(%r).ipv4()" % (v, p, ver, c), res, exp)


def orc_addr_v4v6(args, res):
    ver, v, c = args
    low = spec_ipv4(ver, v)
    exp = REFUSED if low is None else [6, spec_ipv6(4, low, c)]
    return _cmp("IPAddress(%#x, %d).ipv4().ipv6(%r)" % (v, ver, c), res, exp)


def orc_net_v4v6(args, res):
    ver, v, p, c = args
    low = spec_ipv4(ver, v)
    if ver == 4:
        exp = [6, spec_ipv6(4, low, c), p + 96]
    else:
        exp = REFUSED if (low is None or p < 96) else [6, spec_ipv6(4, low, c), p]
    return _cmp("IPNetwork((%#x, %d), %d).ipv4().ipv6(%r)" % (v, p, ver, c), res, exp)


ORACLE = {
    "c16_is_mapped": orc_is("mapped"), "c16_is_compat": orc_is("compat"),
    "c16_addr_ipv4": orc_addr_ipv4, "c16_addr_ipv6": orc_addr_ipv6,
    "c16_net_ipv4": orc_net_ipv4, "c16_net_ipv6": orc_net_ipv6,
    "c16_addr_v6v4": orc_addr_v6v4, "c16_net_v6v4": orc_net_v6v4,
    "c16_addr_v4v6": orc_addr_v4v6, "c16_net_v4v6": orc_net_v4v6,
}


# ---------------------------------------------------------------- generators
def v6_specials():
    s = set()
    for b in (0, 2 ** 32 - 1, 2 ** 32, 0xfffeffffffff, M, MH, 0x1000000000000):
        for d in (-1, 0, 1):
            if 0 <= b + d < 2 ** 128:
                s.add(b + d)
    s.update((2 ** 128 - 1, 2 ** 128 - 2, M + 0x01020304, 0x01020304))
    return sorted(s)


def rand_v6(rng):
    r = rng.random()
    if r < 0.2:
        return rng.getrandbits(32)                                  # inside ::/96
    if r < 0.4:
        return M + rng.getrandbits(32)                              # inside ::ffff:0:0/96
    if r < 0.55:
        return rng.randrange(2 ** 32, M)                            # the gap between the blocks
    if r < 0.65:
        return rng.randrange(MH + 1, 2 ** 49)                       # just above the mapped block
    if r < 0.8:                                                     # embedding pattern under non-zero high bits
        hi = (rng.getrandbits(80) | (1 << rng.randrange(80))) << 48
        return hi | rng.choice((0, M)) | rng.getrandbits(32)
    return gens.rand_value(rng, 6)


def rand_v4(rng):
    return gens.rand_value(rng, 4)


BOOLS = (False, True)


def addr_cases(ver, v, tag):
    yield ("c16_is_mapped", [ver, v], tag)
    yield ("c16_is_compat", [ver, v], tag)
    yield ("c16_addr_ipv4", [ver, v], tag)
    for c in BOOLS:
        yield ("c16_addr_ipv6", [ver, v, c], tag)
        yield ("c16_addr_v6v4", [ver, v, c], tag)
        yield ("c16_addr_v4v6", [ver, v, c], tag)


def net_cases(ver, v, p, tag):
    yield ("c16_net_ipv4", [ver, v, p], tag)
    for c in BOOLS:
        yield ("c16_net_ipv6", [ver, v, p, c], tag)
        yield ("c16_net_v6v4", [ver, v, p, c], tag)
        yield ("c16_net_v4v6", [ver, v, p, c], tag)


def cases(rng, tier):
    quick = tier == "quick"
    b4 = gens.boundary_values(4)
    b6 = gens.boundary_values(6)
    sp6 = v6_specials()

    # ---- addresses
    for v in b4 + [rand_v4(rng) for _ in range(150 if quick else 20000)]:
        yield from addr_cases(4, v, "addr_v4")
    for v in sp6:
        yield from addr_cases(6, v, "addr_v6_special")
    for v in b6 + [rand_v6(rng) for _ in range(400 if quick else 40000)]:
        yield from addr_cases(6, v, "addr_v6")

    # ---- networks: IPv4 values x every prefix 0..32
    if quick:
        keep = set(b4[:6] + b4[-6:]) | set(rng.sample(b4, 14))
        n4 = sorted(keep) + [rand_v4(rng) for _ in range(6)]
    else:
        n4 = b4 + [rand_v4(rng) for _ in range(1200)]
    for v in n4:
        for p in range(33):
            yield from net_cases(4, v, p, "net_v4")
    if quick:   # every other boundary value x every prefix: the embedding and its round trip
        for v in b4:
            if v not in keep:
                for p in range(33):
                    for c in BOOLS:
                        yield ("c16_net_ipv6", [4, v, p, c], "net_v4")
                        yield ("c16_net_v6v4", [4, v, p, c], "net_v4")

    # ---- networks: IPv6 values x every prefix 0..128
    if quick:
        n6 = sp6 + [rand_v6(rng) for _ in range(6)]
        n6b = rng.sample(b6, 12)
    else:
        n6 = sp6 + [rand_v6(rng) for _ in range(500)]
        n6b = b6
    for v in n6:
        for p in range(129):
            yield from net_cases(6, v, p, "net_v6_special" if v in sp6 else "net_v6")
    # boundary values of the whole space: every prefix from /88 upwards plus a few short ones
    for v in n6b:
        for p in sorted(set(range(88, 129)) | {0, 1, 32, 64}):
            yield from net_cases(6, v, p, "net_v6")
    # random (value, prefix) pairs
    for _ in range(800 if quick else 60000):
        v = rand_v6(rng)
        p = rng.choice((rng.randrange(129), rng.randrange(90, 129), 95, 96, 97, 128))
        yield from net_cases(6, v, p, "net_v6_rand")


# ---- object-lifecycle checks (harness/lifecycle.py): objects with a history behave like fresh ones, results do not
# alias operands, failed mutators change nothing.  The functional model has no hidden state: its answer is "no discrepancy".
from harness import lifecycle as _life
IMPL.update(_life.IMPL)
ORACLE.update(_life.ORACLE)
EXACT = tuple(EXACT) + ("life",)
RULE = RULE + " | lifecycle: observe-mutate-observe vs a fresh object, aliasing of results, failure atomicity (addr, net)"
_cases_without_life = cases


def cases(rng, tier):
    yield from _cases_without_life(rng, tier)
    yield from _life.cases(rng, tier, {'addr', 'net'})
