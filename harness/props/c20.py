"""C20 — SubnetSplitter never hands out overlapping space."""
from harness import gens
from harness.wire import Exn, exn_of

PROP = "C20"
THEOREM_FILE = "Props/C20.v"
EXTRA_THEOREM_FILES = ["History/C20_refuted.v",      # F-17: the pre-fix loop hands out 10.0.0.128/26 twice
                       "Props/C20_src.v"]            # source tie: translated source = model (DESIGN 5.1b)
EXTRA_THEOREM_FILES.append("Props/C20_code.v")      # CODC: the C20 theorems stated about the regenerated definitions
EXTRA_THEOREM_FILES.append("Props/C20_src_g.v")     # SRCG: SubnetSplitter.__init__
RULE = ("random histories (length <= 14) on a SubnetSplitter over bases /(w-10)../(w-2) at the bottom, middle and top of "
        "both address spaces (with and without host bits in the base): extract_subnet(prefix, count) with every prefix "
        "from below the base prefix to the family width and counts {None, 1, 2, 3, 5, 6, 7, max, max+1, 0}, interleaved "
        "with remove_subnet of an available block (by index) or of a block that is not available (KeyError); after every "
        "step the returned subnets and available_subnets() are compared with the model and the tiling invariant (plus "
        "pairwise distinct prefix lengths of the available blocks) is evaluated on the implementation's state by "
        "interval arithmetic")
EXACT = ()


def impl_history(ver, v, p, ops):
    import netaddr
    from netaddr.contrib.subnet_splitter import SubnetSplitter
    s = SubnetSplitter(netaddr.IPNetwork((v, p), version=ver))
    out = []
    for op in ops:
        try:
            if op[0] == "extract":
                res = [[n._value, n._prefixlen] for n in s.extract_subnet(op[1], count=op[2])]
            elif op[0] == "remove":
                s.remove_subnet(netaddr.IPNetwork((op[1], op[2]), version=ver))
                res = []
            else:
                av = s.available_subnets()
                if av:
                    s.remove_subnet(av[op[1] % len(av)])
                    res = []
                else:   # nothing to remove: the model performs the same harmless request
                    res = [[n._value, n._prefixlen] for n in s.extract_subnet(-1, count=0)]
        except Exception as e:  # noqa
            res = exn_of(e)
        out.append([res, [[n._value, n._prefixlen] for n in s.available_subnets()]])
    return out


IMPL = {"c20_history": impl_history}


def fl(w, v, p):
    h = 1 << (w - p)
    f = v - v % h
    return f, f + h - 1


def orc_history(args, res):
    ver, v, p, ops = args
    if isinstance(res, Exn):
        return "history runner failed: %s" % res.name
    w = gens.W[ver]
    base = fl(w, v, p)
    gone = []          # intervals handed out or removed so far
    avail = [[v, p]]
    for ix, (op, (r, av)) in enumerate(zip(ops, res)):
        where = "step %d %s" % (ix, op[0])
        avi = sorted(fl(w, *b) for b in av)
        prev = sorted(fl(w, *b) for b in avail)
        if isinstance(r, Exn):
            if r.name not in ("ValueError", "KeyError"):
                return where + ": raised %s" % r.name
            if avi != prev:
                return where + ": a failed request changed the available space"
        else:
            if op[0] == "extract":
                for b in r:
                    if b[1] != op[1]:
                        return where + ": returned a /%d for a /%d request" % (b[1], op[1])
                    f, l = fl(w, *b)
                    if b[0] != f:
                        return where + ": returned subnet has host bits"
                    if not (base[0] <= f and l <= base[1]):
                        return where + ": returned subnet outside the base network"
                    for (gf, gl) in gone:
                        if not (l < gf or gl < f):
                            return where + ": returned subnet %r overlaps space handed out or removed before" % (b,)
                    gone.append((f, l))
                if not r and avi != prev:
                    return where + ": an empty result changed the available space"
            else:
                # a removed block leaves the available space
                removed = [x for x in prev if x not in avi]
                gone.extend(removed)
        # the model lists the set by descending prefix only: legitimate because no two available blocks ever share
        # a prefix length (Inv, C20_available_unique) - checked here on the implementation's own state
        if len(set(b[1] for b in av)) != len(av):
            return where + ": two available blocks share a prefix length (set iteration order would be observable)"
        for b in av:
            if b[0] != fl(w, *b)[0] and b != [v, p]:
                return where + ": available block %r has host bits" % (b,)
        # tiling: available + handed out + removed = base, no overlap, no gap
        allv = sorted(avi + gone)
        pos = base[0]
        for f, l in allv:
            if f != pos:
                return where + ": available + handed-out space %s the base network at %d" % ("overlaps in" if f < pos else "leaves a gap in", pos)
            pos = l + 1
        if pos != base[1] + 1:
            return where + ": available + handed-out space does not reach the end of the base network"
        avail = av
    return None


ORACLE = {"c20_history": orc_history}


def cases(rng, tier):
    n = 6000 if tier == "quick" else 150000
    for _ in range(n):
        ver = rng.choice((4, 6))
        w = gens.W[ver]
        bp = w - rng.randint(2, 10)
        coarse = rng.random() < 0.2          # a coarse base (/0 .. /40): requests stay within 10 prefix bits of the base
        if coarse:
            bp = rng.randint(0, 40 if ver == 6 else 22)
        where = rng.choice(["bottom", "top", "mid"])
        size = 1 << (w - bp)
        if where == "bottom":
            v = 0
        elif where == "top":
            v = 2 ** w - size
        else:
            v = (rng.getrandbits(w) >> (w - bp)) << (w - bp)
        if rng.random() < 0.15:
            v += rng.randrange(size)          # host bits in the base
        ops = []
        for _ in range(rng.randint(1, 14)):
            k = rng.random()
            if k < 0.75:
                q = rng.choice([rng.randint(bp, w), rng.randint(bp, w), min(w, bp + rng.randint(0, 3)), bp - 1, bp, w])
                if coarse:
                    q = rng.choice([bp + rng.randint(0, 10), bp + rng.randint(0, 3), bp, bp - 1, bp + 1])
                mx = 1 << max(0, q - bp)
                c = rng.choice([None, None, 1, 1, 2, 3, 5, 6, 7, mx, mx + 1, 0, max(1, mx - 1)])
                if coarse and q - bp > 10:
                    c = rng.choice([1, 2, 3, 5, 7])
                ops.append(["extract", q, c])
            elif k < 0.93:
                ops.append(["remove_ix", rng.randrange(8)])
            else:
                q = rng.randint(bp, min(w, bp + 12) if coarse else w)
                rv = ((v >> (w - q)) << (w - q)) + rng.choice([0, 1 << (w - q)])
                if rv > 2 ** w - 1:
                    rv = (v >> (w - q)) << (w - q)       # no neighbour above: the block itself
                ops.append(["remove", max(0, rv), q])
        yield ("c20_history", [ver, v, bp, ops], "history")


# ---- requests for more than a thousand subnets at once (a work-list threshold or batch size in extract_subnet or in the
# cidr_merge / cidr_exclude it calls needs counts of this size)
_cases_small_counts = cases


def cases(rng, tier):
    yield from _cases_small_counts(rng, tier)
    for _ in range(4 if tier == "quick" else 60):
        ver = rng.choice((4, 6))
        w = gens.W[ver]
        d = rng.choice((11, 12))
        bp = w - d - rng.randint(0, 3)
        v = rng.choice([0, (2 ** w - (1 << (w - bp))), (rng.getrandbits(w) >> (w - bp)) << (w - bp)])
        c = rng.choice([1025, 1030, 1500, (1 << d) - 1])
        ops = [["extract", bp + d, c], ["extract", bp + d, rng.choice([1, 3])], ["extract", bp + d - 1, 2]]
        yield ("c20_history", [ver, v, bp, ops], "history_big_count")
