"""C01 — address text round-trips; strict parsing equals the standard grammar; both back-ends agree.

Every case runs under BOTH implementation configurations (platform socket functions / netaddr.fbsocket, selected by
harness/implrun.py without touching the source) and is compared with ONE model answer: the model commands that take a
back-end evaluate both and answer only if they coincide.

Oracles evaluate the property statement on the implementation's own output with Python's independent `ipaddress`
parser (the "independent standard parser" of the statement) and plain integer arithmetic for the BSD shorthand and
ZEROFILL conventions — never with netaddr, never with the model.
"""
import ipaddress
import re
import socket

from harness import gens, pystr_cases
from harness.wire import Exn

PROP = "C01"
THEOREM_FILE = "Props/C01.v"
# C01_grammar: the declarative dotted-quad / RFC 4291 grammar (Proofs/C01_Grammar.v PART 1) and the theorems that the
# Std oracles, the fallback parsers, str_to_int and IPAddress(.., INET_PTON) accept exactly the derivable strings
EXTRA_THEOREM_FILES = ["Props/C01_grammar.v"]
EXTRA_THEOREM_FILES += ["Props/C01_src_ctor.v"]      # source tie of IPAddress.__init__ (str branch) (DESIGN 5.1b)
EXTRA_THEOREM_FILES.append("Props/C01_src.v")     # SRCC: source tie, translated source = model (DESIGN 5.1b)
EXTRA_THEOREM_FILES += ["Props/C01_code.v", "Props/C01_code_grammar.v"]   # CODB: code-level theorems (the C01 theorems stated about the regenerated definitions)
EXTRA_THEOREM_FILES.append("Props/C01_src_g.v")     # SRCG: __repr__ of IPAddress / IPNetwork / IPRange, IPRange.__str__, IPAddress.__oct__
BACKENDS = [None, "fallback"]
RULE = ("values: boundary values of both families, every zero/non-zero pattern of the 8 hextets with several fillers, "
        "IPv4-compatible/mapped shapes, random dense/sparse values; each printed in every dialect and re-parsed with "
        "version in {None, own, other} x flags {0, INET_PTON, ZEROFILL, both}; strings: ~200 seed forms (printed forms, "
        "documented spellings, BSD shorthand, zero-padded quads), every deletion and sampled insert/replace edits at "
        "distance 1..2 (quick) / 1..3 (thorough) over the family alphabet plus ' + - _ x X \\n \\0 / % g', random "
        "strings; each string through the Std oracles (vs socket and ipaddress), the fbsocket functions, "
        "IPAddress(str, version, flags), str_to_int and valid_ipv4/valid_ipv6; plus the CPython prelude validation")
EXACT = ("ip_roundtrip", "fb_pton4", "fb_pton6", "fb_ntop6", "fb_ntoa") + tuple(pystr_cases.EXACT)
TRUSTED = [
    "MODELLED, NOT VERIFIED: glibc 2.36 inet_aton / inet_pton / inet_ntop as reached through CPython's socket module "
    "(oracles Std4.aton, Std4.pton4, Std4.ntoa, Std6.pton6, Std6.ntop6 of coq/Model/IpText.v); validated on this run "
    "against the real socket functions and against Python's ipaddress module (commands std_*)",
    "CPython builtins int(s, base), '%d' '%x' '%.4x' formatting, str.split/join, `in` (coq/Base/PyStr.v), validated on "
    "this run (commands pystr_*, c01_split_dc); struct.pack/unpack of the fixed big-endian formats used, modelled as "
    "lists of octets / 16-bit words",
    "non-ASCII input strings are outside the model and outside the quantifier of the theorems",
]
ASSUMPTIONS = ["input strings are ASCII (code points < 128); the platform is glibc 2.36 / CPython 3.12"]

INET_PTON, ZEROFILL = 1, 2


# ------------------------------------------------------------------ implementation adapters
def _words(b):
    return [int.from_bytes(b[i:i + 2], "big") for i in range(0, len(b), 2)]


def _wbytes(ws):
    return b"".join(int(w).to_bytes(2, "big") for w in ws)


def impl_std_pton4(s):
    try:
        return list(socket.inet_pton(socket.AF_INET, s))
    except (OSError, ValueError):
        return None


def impl_std_aton(s):
    try:
        return int.from_bytes(socket.inet_aton(s), "big")
    except (OSError, ValueError):
        return None


def impl_std_pton6(s):
    try:
        return _words(socket.inet_pton(socket.AF_INET6, s))
    except (OSError, ValueError):
        return None


def impl_fb_pton4(s):
    from netaddr import fbsocket
    return list(fbsocket.inet_pton(fbsocket.AF_INET, s))


def impl_fb_pton6(s):
    from netaddr import fbsocket
    r = fbsocket.inet_pton(fbsocket.AF_INET6, s)
    assert len(r) == 16
    return _words(r)


def impl_fb_ntoa(o):
    from netaddr import fbsocket
    r = fbsocket.inet_ntoa(bytes(o))
    assert r == fbsocket.inet_ntop(fbsocket.AF_INET, bytes(o))
    return r


def impl_fb_compact(toks):
    from netaddr import fbsocket
    return fbsocket._compact_ipv6_tokens(list(toks))


def impl_fb_ntop6(ws):
    from netaddr import fbsocket
    return fbsocket.inet_ntop(fbsocket.AF_INET6, _wbytes(ws))


def _dialect(d):
    import netaddr
    return {None: None, "compact": netaddr.ipv6_compact, "full": netaddr.ipv6_full, "verbose": netaddr.ipv6_verbose}[d]


def _module(ver):
    from netaddr.strategy import ipv4, ipv6
    return {4: ipv4, 6: ipv6}[ver]


class _Text(str):
    """a str subclass: address text often arrives as one (enum.StrEnum members, markupsafe, numpy.str_ ...)"""


def impl_ip_init(s, version, flags):
    import netaddr
    import zlib
    arg = s
    if zlib.crc32(s.encode("latin-1", "replace")) % 4 == 0:
        arg = _Text(s)          # same text, handed over as a str-subclass instance (chosen from the content)
    if flags == 0:     # arguments that have their documented default value are left out, so the defaults are exercised
        a = netaddr.IPAddress(arg) if version is None else netaddr.IPAddress(arg, version)
    else:
        a = netaddr.IPAddress(arg, version, flags)
    return [a.version, int(a)]


def impl_str_to_int(ver, s, flags):
    m = _module(ver)
    return m.str_to_int(s) if flags == 0 else m.str_to_int(s, flags)     # flags=0 is the documented default: left out


def impl_valid_str(ver, s, flags):
    import netaddr
    f = netaddr.valid_ipv4 if ver == 4 else netaddr.valid_ipv6
    assert f is _module(ver).valid_str
    return f(s) if flags == 0 else f(s, flags)     # flags=0 is the documented default: left out


def impl_ip_format(ver, v, d):
    import netaddr
    m = _module(ver)
    direct = None
    try:
        direct = m.int_to_str(v, _dialect(d))
    except Exception as e:  # noqa
        if 0 <= v < 2 ** m.width:
            raise
        raise
    if 0 <= v < 2 ** m.width:
        ip = netaddr.IPAddress(v, ver)
        assert ip.format(_dialect(d)) == direct
        if d is None:
            assert str(ip) == direct and repr(ip) == "IPAddress('%s')" % direct
    return direct


def impl_ip_roundtrip(ver, v, d, version, flags):
    import netaddr
    s = netaddr.IPAddress(v, ver).format(_dialect(d))
    a = netaddr.IPAddress(s, version, flags)
    return [a.version, int(a)]


IMPL = {
    "std_pton4": impl_std_pton4,
    "std_aton": impl_std_aton,
    "std_ntoa": lambda o: socket.inet_ntoa(bytes(o)),
    "std_pton6": impl_std_pton6,
    "std_ntop6": lambda ws: socket.inet_ntop(socket.AF_INET6, _wbytes(ws)),
    "fb_ntoa": impl_fb_ntoa,
    "fb_compact": impl_fb_compact,
    "fb_ntop6": impl_fb_ntop6,
    "fb_pton4": impl_fb_pton4,
    "fb_pton6": impl_fb_pton6,
    "c01_split_dc": lambda s: [s.split("::"), "::" in s],
    "ip_init": impl_ip_init,
    "str_to_int": impl_str_to_int,
    "valid_str": impl_valid_str,
    "ip_format": impl_ip_format,
    "ip_roundtrip": impl_ip_roundtrip,
}
IMPL.update(pystr_cases.IMPL)


# ------------------------------------------------------------------ property oracles (independent computations)
def std4(s):
    """strict dotted quad by the independent parser -> value or None"""
    try:
        return int(ipaddress.IPv4Address(s))
    except ValueError:
        return None


def std6(s):
    """RFC 4291 text by the independent parser -> value or None ('%zone' is an ipaddress extension: not standard)"""
    if "%" in s:
        return None
    try:
        return int(ipaddress.IPv6Address(s))
    except ValueError:
        return None


_PART = r"(?:0[xX][0-9a-fA-F]+|0[0-7]*|[1-9][0-9]*)"
_BSD = re.compile(r"\A%s(?:\.%s){0,3}\Z" % (_PART, _PART))
_PADDED = re.compile(r"\A[0-9]+(?:\.[0-9]+){3}\Z")


def _c_int(t):
    if t[:2] in ("0x", "0X"):
        return int(t[2:], 16)
    if t[0] == "0":
        return int(t, 8)
    return int(t, 10)


def bsd_value(s):
    """conventional value of a clean 1-4 part inet_aton spelling, None if out of range / not such a spelling"""
    if not _BSD.match(s):
        return None
    ps = [_c_int(t) for t in s.split(".")]
    if any(p > 255 for p in ps[:-1]) or ps[-1] >= 256 ** (5 - len(ps)):
        return None
    v = ps[-1]
    for i, p in enumerate(ps[:-1]):
        v += p << (8 * (3 - i))
    return v


def padded_value(s):
    """conventional value of a dotted quad whose decimal fields may carry leading zeros"""
    if not _PADDED.match(s):
        return None
    ps = [int(t, 10) for t in s.split(".")]
    if any(p > 255 for p in ps):
        return None
    return (ps[0] << 24) | (ps[1] << 16) | (ps[2] << 8) | ps[3]


def expected_parse(s, version, flags):
    """What the property fixes about IPAddress(s, version, flags): ('ok', ver, v) | ('reject',) | None (not fixed)."""
    if "/" in s or version not in (None, 4, 6):
        return None
    want4 = version in (None, 4)
    want6 = version in (None, 6)
    if flags == INET_PTON:
        v = std4(s) if want4 else None
        if v is not None:
            return ("ok", 4, v)
        v = std6(s) if want6 else None
        if v is not None:
            return ("ok", 6, v)
        if "%" in s and want6:
            return None
        return ("reject",)
    if flags == 0:
        if want4:
            v = std4(s)
            if v is None:
                v = bsd_value(s)
            if v is not None:
                return ("ok", 4, v)
        if want6 and not want4:
            v = std6(s)
            if v is not None:
                return ("ok", 6, v)
            return ("reject",) if "%" not in s else None
        return None
    if flags == ZEROFILL:
        if want4:
            v = padded_value(s)
            if v is not None:
                return ("ok", 4, v)
            # a dot-separated field without a single digit has no octet to zero-fill: whatever leniency ZEROFILL has about signs or blanks,
            # such a text denotes no IPv4 address (the IPv6 reading, if version allows one, is not constrained here)
            if version == 4 and any(not any(c.isdigit() for c in f) for f in s.split(".")):
                return ("reject",)
        if want6 and not want4:
            v = std6(s)
            if v is not None:
                return ("ok", 6, v)
            return ("reject",) if "%" not in s else None
        return None
    return None


def orc_ip_init(args, res):
    s, version, flags = args
    if isinstance(res, Exn):
        if res.name != "AddrFormatError":
            if not (res.name == "ValueError" and ("/" in s or version not in (None, 4, 6))):
                return "rejected address string raised %s instead of AddrFormatError" % res.name
    elif not (isinstance(res, list) and len(res) == 2 and res[0] in (4, 6) and 0 <= res[1] < 2 ** gens.W[res[0]]):
        return "ill-formed result %r" % (res,)
    exp = expected_parse(s, version, flags)
    if exp is None:
        return None
    if exp[0] == "reject":
        if not isinstance(res, Exn):
            return "non-standard string accepted as %r" % (res,)
    else:
        if isinstance(res, Exn) or res != [exp[1], exp[2]]:
            return "standard spelling read as %r, conventional value is %r" % (res, list(exp[1:]))


def orc_str_to_int(args, res):
    ver, s, flags = args
    if isinstance(res, Exn):
        if res.name != "AddrFormatError":
            return "str_to_int raised %s instead of AddrFormatError" % res.name
    exp = expected_parse(s, ver, flags) if "/" not in s else None
    if exp is None:
        return None
    if exp[0] == "reject":
        if not isinstance(res, Exn):
            return "non-standard string accepted as %r" % (res,)
    elif isinstance(res, Exn) or res != exp[2]:
        return "standard spelling read as %r, conventional value is %r" % (res, exp[2])


def orc_valid_str(args, res):
    ver, s, flags = args
    if isinstance(res, Exn):
        if not (res.name == "AddrFormatError" and s == ""):
            return "valid_str raised %s" % res.name
        return None
    if res not in (True, False):
        return "valid_str returned %r" % (res,)
    exp = expected_parse(s, ver, flags) if "/" not in s else None
    if exp is not None and res != (exp[0] == "ok"):
        return "valid_str = %r but the standard says %s" % (res, exp[0])


def orc_roundtrip(args, res):
    ver, v, d, version, flags = args
    if version in (None, ver):
        if res != [ver, v]:
            return "printed form parsed back as %r, not %r" % (res, [ver, v])
    else:
        if not (isinstance(res, Exn) and res.name == "AddrFormatError"):
            return "printed IPv%d form given version=%r produced %r" % (ver, version, res)


def orc_format(args, res):
    ver, v, d = args
    if not 0 <= v < 2 ** gens.W[ver]:
        return None
    if isinstance(res, Exn):
        return "printing raised %s" % res.name
    try:
        a = ipaddress.ip_address(res)
    except ValueError:
        return "printed form %r is not standard text" % res
    if a.version != ver or int(a) != v:
        return "the independent parser reads %r as %r" % (res, a)
    if ver == 6 and d in (None, "compact"):
        # "unchanged when the fallback replaces the platform functions": the text is what the platform prints
        exp = socket.inet_ntop(socket.AF_INET6, v.to_bytes(16, "big"))
        if res != exp:
            return "printed %r, the platform inet_ntop prints %r" % (res, exp)


def orc_fb_pton(ver):
    def f(args, res):
        (s,) = args
        if "%" in s:
            return None
        exp = std4(s) if ver == 4 else std6(s)
        if isinstance(res, Exn):
            got = None
        else:
            got = 0
            for w in res:
                got = (got << (8 if ver == 4 else 16)) | w
        if got != exp:
            return "fallback inet_pton reads %r, the standard parser %r" % (got, exp)
    return f


def orc_std_pton(ver):
    def f(args, res):
        (s,) = args
        if "%" in s:
            return None
        exp = std4(s) if ver == 4 else std6(s)
        got = None
        if res is not None and not isinstance(res, Exn):
            got = 0
            for w in res:
                got = (got << (8 if ver == 4 else 16)) | w
        if got != exp:
            return "platform inet_pton reads %r, ipaddress %r" % (got, exp)
    return f


def orc_ntop6(args, res):
    (ws,) = args
    if len(ws) != 8:
        return None
    if isinstance(res, Exn):
        return "inet_ntop raised %s" % res.name
    v = 0
    for w in ws:
        v = (v << 16) | w
    try:
        if int(ipaddress.IPv6Address(res)) != v:
            return "printed form %r does not denote the value" % res
    except ValueError:
        return "printed form %r is not RFC 4291 text" % res
    exp = socket.inet_ntop(socket.AF_INET6, v.to_bytes(16, "big"))
    if res != exp:
        return "printed %r, the platform inet_ntop prints %r" % (res, exp)


def orc_aton(args, res):
    (s,) = args
    exp = bsd_value(s)
    if exp is not None and res != exp:
        return "inet_aton reads %r, conventional value %r" % (res, exp)


ORACLE = {
    "ip_init": orc_ip_init, "str_to_int": orc_str_to_int, "valid_str": orc_valid_str,
    "ip_roundtrip": orc_roundtrip, "ip_format": orc_format,
    "fb_pton4": orc_fb_pton(4), "fb_pton6": orc_fb_pton(6),
    "std_pton4": orc_std_pton(4), "std_pton6": orc_std_pton(6),
    "fb_ntop6": orc_ntop6, "std_ntop6": orc_ntop6, "std_aton": orc_aton,
}


# ------------------------------------------------------------------ generators
ALPHA4 = "0123456789." + " +-_xX\n\0/a:"
ALPHA6 = "0123456789abcdefABCDEF:." + " +-_xX\n\0/g%"

V6_VALUES = [
    0, 1, 0xffff, 0x10000, 0xffffffff, 0x100000000, 0xffff01020304, 0xfffe01020304, 0xffff00000000, 0x1ffff01020304,
    1 << 112, 0xfe80 << 112 | 1, 0x20010db8 << 96 | 1, 0x20010db8000000000001000000000001, 2 ** 128 - 1,
    0x00010002000300040005000600070008, 0x00010000000000020000000000000003, 0x00000001000000010000000100000001,
    0x00010000000100000001000000010000, 0xff02 << 112 | 0x1ff000000, 0x00010002000300040005000600000000,
    0x00000000000300040005000600070008, 0x0001000000000004000500000000000a, 0x01020304, 0x00000000000000000001000001020304,
]
V4_VALUES = [0, 1, 255, 256, 0x01020304, 0x7f000001, 0xc0a80001, 0xffffffff, 0x0a000001, 0xe0000001, 0x00ffff00,
             0x64646464, 0x0a141e28, 0x80000000]

SPELLINGS4 = ["1", "1.2", "1.2.3", "0x7f.1", "0x7f000001", "017700000001", "0177.0.0.1", "0x7F.0x0.0x0.0x1",
              "4294967295", "1.16777215", "1.2.65535", "0", "00", "0x0", "010.020.030.040", "001.002.003.004",
              "192.168.001.001", "256.1.1.1", "1.2.3.4 ", "1.2.3.4 x", "0X1.0X2.0X3.0X4", "08.1.1.1", "1.2.3.256",
              "1.2.3.4.5", "0000000001.2.3.4", "255.255.255.0255", "000.000.000.000", "0xffffffff", "1.0xffffff",
              "0x1.0x2.0xffff", "a.b.c.d", "1.2.3.4/24", ""]
SPELLINGS6 = ["1:2:3:4:5:6:1.2.3.4", "::1.2.3.4", "1::1.2.3.4", "1:2:3:4:5::1.2.3.4", "1:2:3:4:5:6:7::",
              "::2:3:4:5:6:7:8", "ABCD:EF01::", "::FFFF:1.2.3.4", "0:0:0:0:0:ffff:1.2.3.4", "0:0:0:0:0:0:1.2.3.4",
              "::ffff:0.0.0.0", "::0.0.0.1", "::0.1.0.0", "1::8", "::", "0::0", "0:0::0:0", "00:000:0000::",
              "1:2:3:4:5:6:7:8::", "::1:2:3:4:5:6:7:8", "1::2::3", ":::", "1:2:3:4:5:6:7", "1:2:3:4:5:6:7:8:9",
              "00001::", "0X1::", "::-0", ":: 1", "::+1", "::1_0", "10000::", "::1%eth0", "::ffff:1.2.3.04",
              "::ffff:256.1.1.1", "1:2:3:4:5:6:7:1.2.3.4", "::1.2.3", "1.2.3.4::", "fe80::1/64", "::1 ", "::1\n",
              "12345::", "g::", "::ffff:01.2.3.4", "::1.2.3.4.5", "1:2:3:4:5:6::1.2.3.4", "::1:2:3:4:5:1.2.3.4"]


def print4(v):
    return "%d.%d.%d.%d" % (v >> 24, (v >> 16) & 255, (v >> 8) & 255, v & 255)


def print6(v, kind):
    ws = [(v >> (16 * (7 - i))) & 0xffff for i in range(8)]
    if kind == "full":
        return ":".join("%x" % w for w in ws)
    if kind == "verbose":
        return ":".join("%.4x" % w for w in ws)
    return socket.inet_ntop(socket.AF_INET6, v.to_bytes(16, "big"))


def seeds():
    s4 = [print4(v) for v in V4_VALUES] + SPELLINGS4
    s6 = []
    for v in V6_VALUES:
        for k in ("compact", "full", "verbose"):
            s6.append(print6(v, k))
    s6 += SPELLINGS6
    return list(dict.fromkeys(s4)), list(dict.fromkeys(s6))


def edit(rng, s, alpha):
    k = rng.random()
    if k < 0.4 or not s:
        i = rng.randrange(len(s) + 1)
        return s[:i] + rng.choice(alpha) + s[i:]
    i = rng.randrange(len(s))
    if k < 0.6:
        return s[:i] + s[i + 1:]
    return s[:i] + rng.choice(alpha) + s[i + 1:]


def hextet_pattern_values(rng, per_pattern):
    """every zero/non-zero pattern of the 8 hextets, with several fillers"""
    out = []
    for pat in range(256):
        for _ in range(per_pattern):
            ws = []
            for i in range(8):
                if pat >> i & 1:
                    ws.append(rng.choice([1, 0xffff, 0xf, 0x100, 0xabcd, rng.getrandbits(16) or 1]))
                else:
                    ws.append(0)
            out.append(ws)
    return out


def words_value(ws):
    v = 0
    for w in ws:
        v = (v << 16) | w
    return v


GRID = [(ver, fl) for ver in (None, 4, 6) for fl in (0, INET_PTON, ZEROFILL)]


def string_cases(rng, s, fam, full_grid):
    """all observation points for one candidate string"""
    if fam == 4:
        yield ("std_pton4", [s], "std4")
        yield ("std_aton", [s], "std4")
        yield ("fb_pton4", [s], "fb4")
        if rng.random() < 0.15:
            yield ("std_pton6", [s], "std6")
            yield ("fb_pton6", [s], "fb6")
    else:
        yield ("std_pton6", [s], "std6")
        yield ("fb_pton6", [s], "fb6")
        if rng.random() < 0.15:
            yield ("std_pton4", [s], "std4")
            yield ("std_aton", [s], "std4")
            yield ("fb_pton4", [s], "fb4")
    grid = GRID if full_grid else rng.sample(GRID, 3)
    for ver, fl in grid:
        yield ("ip_init", [s, ver, fl], "init_v%s_f%d" % (ver, fl))
    ver = fam if rng.random() < 0.8 else 10 - fam
    fl = rng.choice((0, INET_PTON, ZEROFILL, INET_PTON | ZEROFILL))
    yield ("valid_str", [ver, s, fl], "valid_str")
    if rng.random() < 0.3:
        yield ("str_to_int", [ver, s, fl], "str_to_int")
    if rng.random() < 0.05:
        yield ("ip_init", [s, rng.choice((None, 4, 6)), INET_PTON | ZEROFILL], "init_f3")
        yield ("ip_init", [s, rng.choice((5, 0, 46)), rng.choice((0, 1, 2))], "init_badver")


def cases(rng, tier):
    quick = tier == "quick"
    yield from pystr_cases.cases(rng, tier)

    # '::' splitting and containment (CPython str.split('::'), '::' in s)
    import itertools
    for n in range(0, 7 if quick else 9):
        for t in itertools.product(":a.", repeat=n):
            yield ("c01_split_dc", ["".join(t)], "split_dc")

    # ---- values: print in every dialect, parse back under every version/flags combination
    for ver in (4, 6):
        vals = gens.values(rng, ver, 60 if quick else 3000, cap_boundary=120 if quick else None)
        vals += (V4_VALUES if ver == 4 else V6_VALUES)
        if ver == 6:
            vals += [words_value(ws) for ws in hextet_pattern_values(rng, 1 if quick else 12)]
            for _ in range(60 if quick else 2000):      # IPv4-compatible / mapped shapes and their neighbours
                low = rng.choice([0, 1, 0xffff, 0x10000, 0xffffffff, rng.getrandbits(32), rng.getrandbits(16)])
                hi = rng.choice([0, 0xffff, 0xfffe, 1, 0x10000, 0x1ffff])
                vals.append((hi << 32) | low)
        dialects = [None] if ver == 4 else [None, "compact", "full", "verbose"]
        for v in vals:
            for d in dialects:
                yield ("ip_format", [ver, v, d], "format_v%d" % ver)
                combos = [(va, fl) for va in (None, ver) for fl in ((0, 1, 2, 3) if ver == 4 else (0, 1, 2))]
                if quick:
                    combos = rng.sample(combos, 3)
                for va, fl in combos:
                    yield ("ip_roundtrip", [ver, v, d, va, fl], "roundtrip_v%d" % ver)
                if rng.random() < 0.1:
                    yield ("ip_roundtrip", [ver, v, d, 10 - ver, rng.choice((0, 1, 2))], "roundtrip_otherver")
        for v in (-1, 2 ** gens.W[ver], 2 ** gens.W[ver] + 5, 2 ** 200):
            yield ("ip_format", [ver, v, None], "format_range")
            if ver == 6:
                yield ("ip_format", [ver, v, "verbose"], "format_range")

    # ---- the printers and the compaction directly
    for ws in hextet_pattern_values(rng, 2 if quick else 20):
        yield ("std_ntop6", [ws], "ntop6")
        yield ("fb_ntop6", [ws], "ntop6")
        toks = ["%x" % w for w in ws]
        yield ("fb_compact", [toks], "compact")
        if rng.random() < 0.3:
            yield ("fb_compact", [toks[:rng.randrange(0, 8)]], "compact")
    for _ in range(300 if quick else 20000):
        ws = [0] * 5 + [rng.choice([0, 0xffff, 1, 0xfffe]), rng.choice([0, 1, 0xffff, rng.getrandbits(16)]),
                        rng.choice([0, 1, 0xffff, rng.getrandbits(16)])]
        if rng.random() < 0.3:
            ws[rng.randrange(5)] = rng.choice([1, 0xffff])
        yield ("std_ntop6", [ws], "ntop6_tail")
        yield ("fb_ntop6", [ws], "ntop6_tail")
        o = [rng.choice([0, 1, 9, 10, 99, 100, 255, rng.randrange(256)]) for _ in range(4)]
        yield ("std_ntoa", [o], "ntoa")
        yield ("fb_ntoa", [o], "ntoa")
    yield ("fb_ntoa", [[1, 2, 3]], "ntoa")
    yield ("fb_ntop6", [[1, 2, 3, 4, 5, 6, 7]], "ntop6")
    yield ("fb_compact", [[]], "compact")
    yield ("fb_compact", [["0", "0", "1.2.3.4"]], "compact")

    # ---- strings
    s4, s6 = seeds()
    for fam, ss, alpha in ((4, s4, ALPHA4), (6, s6, ALPHA6)):
        for s in ss:
            yield from string_cases(rng, s, fam, True)
            # every single deletion
            for i in range(len(s)):
                yield from string_cases(rng, s[:i] + s[i + 1:], fam, False)
            n1 = 25 if quick else 1000
            for _ in range(n1):
                t = edit(rng, s, alpha)
                yield from string_cases(rng, t, fam, False)
            for _ in range(15 if quick else 1500):
                t = edit(rng, edit(rng, s, alpha), alpha)
                yield from string_cases(rng, t, fam, False)
            if not quick:
                for _ in range(800):
                    t = edit(rng, edit(rng, edit(rng, s, alpha), alpha), alpha)
                    yield from string_cases(rng, t, fam, False)
    # random strings over the alphabets
    for _ in range(1500 if quick else 60000):
        fam = rng.choice((4, 6))
        alpha = ALPHA4 if fam == 4 else ALPHA6
        core = "0123456789." if fam == 4 else "0123456789abcdef::."
        t = "".join(rng.choice(core if rng.random() < 0.9 else alpha) for _ in range(rng.randint(0, 24)))
        yield from string_cases(rng, t, fam, False)
    # valid-biased long / mixed IPv6 spellings: every hextet count before a dotted tail, padded and upper-case
    # hextets, maximal-length forms (45 characters), '::' at every position
    for _ in range(400 if quick else 20000):
        n = rng.choice([6, 6, 6, 8, 8, rng.randint(0, 5)])
        hx = []
        for _ in range(n):
            w = rng.choice([0, 1, 0xffff, 0xfff, 0xabcd, rng.getrandbits(16)])
            hx.append(rng.choice(["%x", "%04x", "%X", "%04X", "%x"]) % w)
        tail = ""
        if n <= 6 and rng.random() < 0.8:
            tail = ".".join(str(rng.choice([0, 1, 9, 10, 99, 100, 255, 255, rng.randrange(256)])) for _ in range(4))
        groups = hx + ([tail] if tail else [])
        full = 8 if not tail else 7
        if len(groups) < full or rng.random() < 0.1:
            i = rng.randrange(len(groups) + 1)
            t = ":".join(groups[:i]) + "::" + ":".join(groups[i:])
        else:
            t = ":".join(groups)
        yield from string_cases(rng, t, 6, False)
    for t in ("ffff:ffff:ffff:ffff:ffff:ffff:255.255.255.255", "FFFF:FFFF:FFFF:FFFF:FFFF:FFFF:255.255.255.255",
              "ffff:ffff:ffff:ffff:ffff:ffff:ffff:ffff", "0000:0000:0000:0000:0000:0000:000.000.000.000",
              "0000:0000:0000:0000:0000:ffff:255.255.255.255", "1111:2222:3333:4444:5555:6666:123.123.123.123"):
        yield from string_cases(rng, t, 6, True)
    # structured BSD shorthand and zero-padded quads (valid-biased)
    for _ in range(1500 if quick else 60000):
        n = rng.randint(1, 4)
        parts = []
        for i in range(n):
            lim = 255 if i < n - 1 else 256 ** (4 - (n - 1)) - 1
            v = rng.choice([0, 1, 7, 8, 9, 255, 256, lim, lim + 1, rng.randint(0, lim), rng.randint(0, min(lim, 300))])
            f = rng.choice(["%d", "%d", "0x%x", "0X%X", "0%o", "%03d", "%010d", "0x%08x"])
            parts.append(f % v)
        t = ".".join(parts) + rng.choice(["", "", "", "", " ", " x", "\t", ".", "x"])
        yield ("std_aton", [t], "aton_shorthand")
        for ver, fl in rng.sample(GRID, 3):
            yield ("ip_init", [t, ver, fl], "init_shorthand")
        yield ("ip_init", [t, rng.choice((None, 4)), ZEROFILL], "init_zerofill")
        yield ("valid_str", [4, t, rng.choice((0, 1, 2, 3))], "valid_str")


# ---- object-lifecycle checks (harness/lifecycle.py): objects with a history behave like fresh ones, results do not
# alias operands, failed mutators change nothing.  The functional model has no hidden state: its answer is "no discrepancy".
from harness import lifecycle as _life
IMPL.update(_life.IMPL)
ORACLE.update(_life.ORACLE)
EXACT = tuple(EXACT) + ("life",)
RULE = RULE + " | lifecycle: observe-mutate-observe vs a fresh object, aliasing of results, failure atomicity (addr)"
_cases_without_life = cases


def cases(rng, tier):
    yield from _cases_without_life(rng, tier)
    yield from _life.cases(rng, tier, {'addr'})


# ---- text beyond latin-1 (harness/unistream.py): Unicode digits, blanks and separator look-alikes substituted into valid texts must
# be refused by the strict entry points in the prescribed way.  Outside the 8-bit alphabet of the model: its answer is "no discrepancy".
from harness import unistream as _uni
IMPL.update(_uni.IMPL)
ORACLE.update(_uni.ORACLE)
EXACT = tuple(EXACT) + ("uni",)
RULE = RULE + " | text beyond latin-1 (Unicode digits / blanks / look-alikes in valid texts) at the strict entry points: ip4, ip6"
_cases_without_uni = cases


def cases(rng, tier):
    yield from _cases_without_uni(rng, tier)
    yield from _uni.cases(rng, tier, ('ip4', 'ip6'))
