"""Pseudo-property module: validates the Python-builtin prelude (coq/Base/PyStr.v) against CPython.
Run as `./check PYSTR` (not a listed property; used while developing and included by string properties)."""
from harness import pystr_cases

PROP = "PYSTR"
THEOREM_FILE = "Props/PyStr.v"
RULE = "exhaustive short strings over a 20-character alphabet for int(s, base) with base 10/16/2, structured long numerals, formatting, split/join/strip/replace"
IMPL = dict(pystr_cases.IMPL)
ORACLE = {}
EXACT = pystr_cases.EXACT
cases = pystr_cases.cases
