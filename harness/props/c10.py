"""C10 — ranged objects (IPNetwork, IPRange, IPGlob) behave exactly like the list of their addresses."""
import itertools

from harness import gens
from harness.wire import Exn

PROP = "C10"
THEOREM_FILE = "Props/C10.v"
EXTRA_THEOREM_FILES = ["Props/C10_src.v"]     # source tie: translated source = model (DESIGN 5.1b)
EXTRA_THEOREM_FILES.append("Props/C10_src_iter.v")     # (SRCE) source tie of iter_iprange, __iter__, __nonzero__
EXTRA_THEOREM_FILES.append("Props/C10_code.v")     # (CODA) code-level theorems: the property about the regenerated definitions
SSIZE_MAX = 2 ** 63 - 1
RULE = ("objects: every network (with and without host bits), range and IPv4 glob of size<=16 inside the small arenas "
        "of harness/gens.py (bottom/top /26 and a mid /24 of IPv4, ::/122, top /122 and a mid /120 of IPv6) plus "
        "single/two-address and size<=16 objects at address 0 and at the top address of both families; for each: "
        "size/len, iteration with limits below/at/above the size, EVERY integer index in [-size-2, size+1], and "
        "(IPv4) EVERY slice with start/stop in {None} u [-size-2, size+2] and step in {None,+-1,+-2,+-3,+-size,"
        "+-(size+1)} (one c10_slice_row case = one (object,start,step) with all 2*size+6 stops; quick tier samples "
        "objects, thorough takes all of them), step 0 and IPv6 slices (errors); large objects (every prefix, wide "
        "ranges, wide globs, sizes around sys.maxsize): size, len guard, spot indices at both ends, lazy prefixes, "
        "slices with huge steps; iter_iprange over all small (start,end,step) at address 0, mid-space and the top "
        "of both families, mixed families and step 0; the CPython builtins slice.indices, len(range), list indexing "
        "and list slicing over a dense small grid and at 2^63 boundaries")
EXACT = ("c10_addresses", "c10_size_len", "c10_iter", "c10_index", "c10_slice", "c10_slice_row", "c10_iprange")
TRUSTED = ["hand models of CPython's slice.indices(len), len(range(a,b,c)), list[int] and list[slice] "
           "(coq/Model/PySlice.v), compared with the real builtins by the c10_slice_indices / c10_range_len / "
           "c10_list_index / c10_list_slice commands of this check"]


# ------------------------------------------------------------------ plain-integer view of an object
def geometry(o):
    """(version, first, last) of a wire object by integer arithmetic only."""
    kind = o[0]
    if kind == "net":
        _, ver, v, p = o
        h = 2 ** (gens.W[ver] - p)
        first = v - v % h
        return ver, first, first + h - 1
    if kind == "range":
        _, ver, s, e = o
        return ver, s, e
    _, s, e = o
    return 4, s, e


def glob_string(s, e):
    """The glob spelling of the IPv4 range [s, e] (None when it has none): equal octets, then at most one
    hyphenated octet, then asterisks."""
    so = [(s >> k) & 255 for k in (24, 16, 8, 0)]
    eo = [(e >> k) & 255 for k in (24, 16, 8, 0)]
    out = []
    i = 0
    while i < 4 and so[i] == eo[i]:
        out.append(str(so[i]))
        i += 1
    if i < 4:
        if (so[i], eo[i]) == (0, 255):
            pass
        elif so[i] < eo[i]:
            out.append("%d-%d" % (so[i], eo[i]))
            i += 1
        else:
            return None
        for j in range(i, 4):
            if (so[j], eo[j]) != (0, 255):
                return None
            out.append("*")
    return ".".join(out)


# ------------------------------------------------------------------ implementation adapters
def _obj(o):
    import netaddr
    kind = o[0]
    ver, first, last = geometry(o)
    if kind == "net":
        x = netaddr.IPNetwork((o[2], o[3]), version=ver)
        assert type(x) is netaddr.IPNetwork and x._value == o[2] and x._prefixlen == o[3]
    elif kind == "range":
        x = netaddr.IPRange(netaddr.IPAddress(first, ver), netaddr.IPAddress(last, ver))
        assert type(x) is netaddr.IPRange
    else:
        x = netaddr.IPGlob(glob_string(first, last))
        assert type(x) is netaddr.IPGlob
    assert x.version == ver
    return x, ver


def _take(it, limit, ver):
    """Pull at most `limit` elements, then probe once: [elements, 'done' | 'more' | Exn]."""
    import netaddr
    from harness.wire import exn_of
    out = []
    try:
        for _ in range(limit):
            try:
                a = next(it)
            except StopIteration:
                return [out, "done"]
            if not (type(a) is netaddr.IPAddress and a.version == ver):
                return [out, Exn("Other_NotAnAddressOfTheFamily")]
            out.append(int(a))
        try:
            next(it)
        except StopIteration:
            return [out, "done"]
        return [out, "more"]
    except Exception as e:  # noqa  raised by the iterator itself
        return [out, exn_of(e)]


def impl_slice_indices(a, b, c, n):
    return list(slice(a, b, c).indices(n))


def impl_range_len(a, b, c):
    return len(range(a, b, c))


def impl_list_slice(l, a, b, c):
    return l[a:b:c]


def impl_list_index(l, i):
    return l[i]


def impl_addresses(o):
    import netaddr
    x, ver = _obj(o)
    out = list(x)
    assert all(type(a) is netaddr.IPAddress and a.version == ver for a in out)
    return [int(a) for a in out]


def impl_size_len(o):
    from harness.wire import exn_of
    x, ver = _obj(o)
    try:
        ln = len(x)
    except Exception as e:  # noqa
        ln = exn_of(e)
    try:
        ln2 = x.__len__()          # len() itself refuses results above sys.maxsize; the method must agree below it
    except Exception as e:  # noqa
        ln2 = exn_of(e)
    if ln2 != ln:
        ln = [ln, ln2]
    return [x.version, x.first, x.last, x.size, ln]


def impl_iter(o, limit):
    x, ver = _obj(o)
    return _take(iter(x), limit, ver)


class _Idx(object):
    """an index that is integral only through __index__ (what list indexing accepts: numpy integers and the like)"""
    def __init__(self, n):
        self.n = n

    def __index__(self):
        return self.n


def impl_index(o, i):
    import netaddr
    x, ver = _obj(o)
    # a quarter of the indices are handed over as an object with __index__ (chosen from the content): a list accepts those
    a = x[_Idx(i)] if (i * 7 + len(repr(o))) % 4 == 0 else x[i]
    assert type(a) is netaddr.IPAddress
    return [a.version, int(a)]


def impl_slice(o, a, b, c, limit):
    x, ver = _obj(o)
    return _take(x[slice(a, b, c)], limit, ver)


def impl_slice_row(o, a, c, stops, limit):
    from harness.wire import exn_of
    x, ver = _obj(o)
    out = []
    for b in stops:
        try:
            out.append(_take(x[slice(a, b, c)], limit, ver))
        except Exception as e:  # noqa
            out.append(exn_of(e))
    return out


def impl_iprange(sver, sv, ever, ev, step, limit):
    import netaddr
    it = netaddr.iter_iprange(netaddr.IPAddress(sv, sver), netaddr.IPAddress(ev, ever), step)
    return _take(it, limit, sver)


IMPL = {
    "c10_slice_indices": impl_slice_indices, "c10_range_len": impl_range_len, "c10_size_len": impl_size_len,
    "c10_list_slice": impl_list_slice, "c10_list_index": impl_list_index, "c10_addresses": impl_addresses,
    "c10_iter": impl_iter, "c10_index": impl_index, "c10_slice": impl_slice, "c10_slice_row": impl_slice_row,
    "c10_iprange": impl_iprange,
}


# ------------------------------------------------------------------ property oracles: Python's own list semantics
SMALL = 64


def _addresses(first, last):
    """The list of addresses as a Python sequence: a real list when small, a range otherwise (same indexing and
    slicing semantics, big-int capable)."""
    r = range(first, last + 1)
    return list(r) if last - first + 1 <= SMALL else r


def _expect_prefix(seq, limit):
    """[first `limit` elements of seq, 'done' | 'more']; seq is a list or a range (len(range) may overflow)."""
    head = list(itertools.islice(iter(seq), limit))
    if len(head) < limit:
        return [head, "done"]
    try:
        n = len(seq)
    except OverflowError:
        return [head, "more"]
    return [head, "done" if n <= limit else "more"]


def orc_size_len(args, res):
    ver, first, last = geometry(args[0])
    size = last - first + 1
    exp = [ver, first, last, size, size if size <= SSIZE_MAX else Exn("IndexError")]
    if res != exp:
        return "size/len: got %r, the list of addresses has %r" % (res, exp)


def orc_iter(args, res):
    o, limit = args
    ver, first, last = geometry(o)
    exp = _expect_prefix(_addresses(first, last), limit)
    if res != exp:
        return "iteration yields %r, list of addresses starts %r" % (res, exp)


def orc_index(args, res):
    o, i = args
    ver, first, last = geometry(o)
    try:
        exp = [ver, _addresses(first, last)[i]]
    except IndexError:
        exp = Exn("IndexError")
    if res != exp:
        return "x[%d] = %r, list(x)[%d] = %r" % (i, res, i, exp)


def _slice_expect(o, a, b, c, limit):
    ver, first, last = geometry(o)
    if ver == 6:
        return Exn("TypeError")
    try:
        sub = _addresses(first, last)[a:b:c]
    except ValueError:
        return Exn("ValueError")
    return _expect_prefix(sub, limit)


def orc_slice(args, res):
    o, a, b, c, limit = args
    exp = _slice_expect(o, a, b, c, limit)
    if res != exp:
        return "x[%r:%r:%r] = %r, list(x)[%r:%r:%r] = %r" % (a, b, c, res, a, b, c, exp)


def orc_slice_row(args, res):
    o, a, c, stops, limit = args
    if isinstance(res, Exn) or len(res) != len(stops):
        return "slice row failed as a whole: %r" % (res,)
    for b, r in zip(stops, res):
        exp = _slice_expect(o, a, b, c, limit)
        if r != exp:
            return "x[%r:%r:%r] = %r, list(x)[%r:%r:%r] = %r" % (a, b, c, r, a, b, c, exp)


def orc_iprange(args, res):
    sver, sv, ever, ev, step, limit = args
    if sver != ever:
        exp = [[], Exn("TypeError")]
    elif step == 0:
        exp = [[], Exn("ValueError")]
    else:
        # start, start+step, ... while within the closed interval between start and end
        seq = range(sv, ev + 1, step) if step > 0 else range(sv, ev - 1, step)
        exp = _expect_prefix(seq, limit)
    if res != exp:
        return "iter_iprange yields %r, expected %r" % (res, exp)


def orc_slice_indices(args, res):
    # CPython against itself: the triple must select what list slicing selects
    a, b, c, n = args
    if isinstance(res, Exn):
        return None if (c == 0 and res.name == "ValueError") else "slice.indices raised %s" % res.name
    if n <= 64 and list(range(n))[a:b:c] != list(range(*res)):
        return "slice.indices disagrees with list slicing"


def orc_range_len(args, res):
    a, b, c = args
    if isinstance(res, Exn):
        return None
    if res <= 4096:
        k = 0
        while (a + k * c < b) if c > 0 else (a + k * c > b):
            k += 1
        if k != res:
            return "len(range) is not the number of steps before stop"


def orc_addresses(args, res):
    ver, first, last = geometry(args[0])
    if res != list(range(first, last + 1)):
        return "list(x) is not first..last ascending: %r" % (res,)


def orc_list_slice(args, res):
    # CPython lists against a hand evaluation of the language definition of extended slicing
    l, a, b, c = args
    if c == 0:
        return None if res == Exn("ValueError") else "l[::0] did not raise ValueError"
    n = len(l)
    st = 1 if c is None else c
    lo, hi = (0, n) if st > 0 else (-1, n - 1)

    def fix(v, dflt):
        if v is None:
            return dflt
        if v < 0:
            v += n
        return max(lo, min(hi, v))
    i, e = fix(a, lo if st > 0 else hi), fix(b, hi if st > 0 else lo)
    exp = []
    while (i < e) if st > 0 else (i > e):
        exp.append(l[i])
        i += st
    if res != exp:
        return "list slicing disagrees with the language definition"


ORACLE = {
    "c10_addresses": orc_addresses, "c10_list_slice": orc_list_slice,
    "c10_size_len": orc_size_len, "c10_iter": orc_iter, "c10_index": orc_index, "c10_slice": orc_slice,
    "c10_slice_row": orc_slice_row, "c10_iprange": orc_iprange, "c10_slice_indices": orc_slice_indices,
    "c10_range_len": orc_range_len,
}


# ------------------------------------------------------------------ generators
def small_objects(rng):
    """Every object of size <= 16 of the small arenas + the two ends of both address spaces."""
    objs = []
    seen = set()

    def add(o):
        t = tuple(o)
        if t not in seen:
            seen.add(t)
            objs.append(list(o))

    for arena in gens.ARENAS:
        ver, base, ap = arena
        w = gens.W[ver]
        mx = gens.maxint(ver)
        if w - ap <= 8:
            span = 2 ** (w - ap)
            for (_, first, p) in gens.arena_blocks(arena):
                if w - p <= 4:
                    add(("net", ver, first, p))
                    h = 2 ** (w - p)
                    if h > 1:                                   # host bits kept in _value
                        add(("net", ver, first + rng.randrange(1, h), p))
            for s in range(base, base + span):
                for n in range(1, 17):
                    e = s + n - 1
                    if e < base + span:
                        add(("range", ver, s, e))
                        if ver == 4 and (s >> 8) == (e >> 8):
                            add(("glob", s, e))
        else:
            # the whole space: its two ends
            for n in range(1, 17):
                add(("range", ver, 0, n - 1))
                add(("range", ver, mx - n + 1, mx))
                add(("range", ver, 1, n))
                add(("range", ver, mx - n, mx - 1))
                if ver == 4:
                    add(("glob", 0, n - 1))
                    add(("glob", mx - n + 1, mx))
            for k in range(0, 5):
                add(("net", ver, 0, w - k))
                add(("net", ver, mx, w - k))                    # host bits all ones
                add(("net", ver, mx - 2 ** k + 1, w - k))
    return objs


def steps_for(size):
    out = []
    for c in (None, 1, -1, 2, -2, 3, -3, size, -size, size + 1, -(size + 1)):
        if c not in out:
            out.append(c)
    return out


def slice_rows(o, size):
    stops = [None] + list(range(-size - 2, size + 3))
    limit = size + 3
    for c in steps_for(size):
        for a in stops:
            yield ("c10_slice_row", [o, a, c, stops, limit], "slice_row_small")


def small_cases(rng, tier):
    objs = small_objects(rng)
    if tier == "quick":
        # all objects for the cheap observations, a boundary-heavy sample for the exhaustive slice grids
        edge = [o for o in objs if geometry(o)[1] == 0 or geometry(o)[2] == gens.maxint(geometry(o)[0])
                or geometry(o)[2] - geometry(o)[1] <= 1]
        v4 = [o for o in objs if geometry(o)[0] == 4]
        grid = rng.sample(edge, min(len(edge), 40)) + rng.sample(v4, 110)
        cheap = rng.sample(objs, 2500)
    else:
        grid = [o for o in objs if geometry(o)[0] == 4]
        # the mid-space /24 arena holds ~4000 ranges that differ only by a translation: keep every network and
        # glob, every range touching the arena edges, and a third of the others
        keep = []
        for o in grid:
            ver, first, last = geometry(o)
            if o[0] != "range" or first < 2 ** 31 or not (0x0A000000 + 20 <= first and last <= 0x0A0000FF - 20):
                keep.append(o)
            elif rng.random() < 0.34:
                keep.append(o)
        grid = keep
        cheap = objs
    for o in cheap:
        ver, first, last = geometry(o)
        size = last - first + 1
        yield ("c10_size_len", [o], "size_len_small")
        yield ("c10_addresses", [o], "addresses_small")
        for lim in sorted({0, 1, size - 1, size, size + 2}):
            if lim >= 0:
                yield ("c10_iter", [o, lim], "iter_small")
        for i in range(-size - 2, size + 2):
            yield ("c10_index", [o, i], "index_small")
        if ver == 6:
            for (a, b, c) in ((None, None, None), (0, 1, 1), (None, None, 0), (1, None, -1)):
                yield ("c10_slice", [o, a, b, c, size + 3], "slice_v6")
        else:
            yield ("c10_slice", [o, None, None, 0, size + 3], "slice_step0")
            yield ("c10_slice", [o, rng.randint(-size - 2, size + 2), rng.randint(-size - 2, size + 2), 0, size + 3],
                   "slice_step0")
    for o in grid:
        ver, first, last = geometry(o)
        for c in slice_rows(o, last - first + 1):
            yield c


def large_objects(rng, tier):
    objs = []
    nrand = 2 if tier == "quick" else 12
    for ver in (4, 6):
        w = gens.W[ver]
        mx = gens.maxint(ver)
        for p in range(0, w - 3):
            h = 2 ** (w - p)
            firsts = {0, mx - h + 1}
            for _ in range(nrand):
                firsts.add(rng.getrandbits(w) >> (w - p) << (w - p))
            for f in firsts:
                objs.append(["net", ver, f, p])
                objs.append(["net", ver, f + rng.randrange(h), p])
        for _ in range(30 if tier == "quick" else 600):
            a, b = sorted((gens.rand_value(rng, ver), gens.rand_value(rng, ver)))
            objs.append(["range", ver, a, b])
        objs.append(["range", ver, 0, mx])
        objs.append(["range", ver, 1, mx])
        objs.append(["range", ver, 0, mx - 1])
    # sizes around sys.maxsize (IPv6 only)
    for d in (-2, -1, 0, 1, 2):
        size = SSIZE_MAX + d
        for s in (0, 1, 2 ** 128 - size, rng.getrandbits(100)):
            objs.append(["range", 6, s, s + size - 1])
    # wide globs
    for _ in range(20 if tier == "quick" else 300):
        k = rng.choice((1, 2, 3))                 # number of fixed leading octets
        fixed = [rng.choice((0, 255, rng.randrange(256))) for _ in range(k)]
        lo, hi = sorted((rng.randrange(256), rng.randrange(256)))
        if rng.random() < 0.3:
            lo, hi = 0, 255
        s = e = 0
        octs_s = fixed + [lo] + [0] * (3 - k)
        octs_e = fixed + [hi] + [255] * (3 - k)
        for x in octs_s:
            s = s * 256 + x
        for x in octs_e:
            e = e * 256 + x
        if glob_string(s, e) is not None:
            objs.append(["glob", s, e])
    objs.append(["glob", 0, 2 ** 32 - 1])
    return objs


def large_cases(rng, tier):
    for o in large_objects(rng, tier):
        ver, first, last = geometry(o)
        size = last - first + 1
        yield ("c10_size_len", [o], "size_len_large")
        for lim in (0, 3, 9):
            yield ("c10_iter", [o, lim], "iter_large")
        idx = {0, 1, -1, -2, size - 1, size - 2, size, size + 1, -size, -size + 1, -size - 1, -size - 2,
               size // 2, -(size // 2), rng.randrange(size), -rng.randrange(size) - 1,
               rng.randrange(size, 2 * size + 2), -rng.randrange(size, 2 * size + 2) - 1, 2 ** 130, -2 ** 130}
        for i in sorted(idx):
            yield ("c10_index", [o, i], "index_large")
        if ver == 6:
            yield ("c10_slice", [o, None, None, rng.choice((None, 1, -1, size // 3 + 1, 0)), 5], "slice_v6")
            continue

        def bound():
            r = rng.random()
            if r < 0.3:
                return None
            if r < 0.6:
                return rng.choice((0, 1, -1, size, size - 1, -size, size + 1, -size - 1, 2 ** 40, -2 ** 40))
            return rng.randint(-size - 2, size + 2)

        steps = {size, size - 1, size + 1, -size, -(size - 1), -(size + 1), 2 ** 40, -2 ** 40}
        for k in (2, 3, 4, 5, 7, 11, 30):
            steps.update({size // k, -(size // k), size // k + 1, -(size // k + 1), size // k - 1})
        steps.discard(0)
        for c in sorted(steps):
            if size // abs(c) > 60:
                continue
            yield ("c10_slice", [o, None, None, c, 70], "slice_large_step")
            for _ in range(2 if tier == "quick" else 6):
                yield ("c10_slice", [o, bound(), bound(), c, 70], "slice_large_step")
        # lazy prefixes of long slices, and empty / short slices deep inside
        for c in (None, 1, -1, 2, -3, 7):
            yield ("c10_slice", [o, bound(), bound(), c, 6], "slice_large_prefix")
            m = rng.randrange(size)
            yield ("c10_slice", [o, m, m + rng.randint(-3, 9), c, 12], "slice_large_window")
            yield ("c10_slice", [o, -m - 1, -m - 1 + rng.randint(-9, 3), c, 12], "slice_large_window")


def iprange_cases(rng, tier):
    span = 7 if tier == "quick" else 10
    smax = 8 if tier == "quick" else 12
    for ver in (4, 6):
        mx = gens.maxint(ver)
        for base in (0, mx - span + 1, 0x0A0000F0 if ver == 4 else (0x20010DB8 << 96) + 2 ** 64 - 3):
            for sv in range(base, base + span):
                for ev in range(base, base + span):
                    for step in range(-smax, smax + 1):
                        yield ("c10_iprange", [ver, sv, ver, ev, step, span + 2], "iprange_small")
        # long runs observed lazily, huge steps, whole-space runs
        for _ in range(60 if tier == "quick" else 1500):
            sv, ev = gens.rand_value(rng, ver), gens.rand_value(rng, ver)
            d = abs(ev - sv) + 1
            step = rng.choice((1, -1, 2, -2, d, -d, d - 1, 1 - d, d + 1, d // 2 + 1, -(d // 3) - 1, d // 7 + 1,
                               2 ** 130, -2 ** 130, 0))
            yield ("c10_iprange", [ver, sv, ver, ev, step, 12], "iprange_large")
        for (sv, ev, step) in ((0, mx, 1), (mx, 0, -1), (0, mx, mx), (mx, 0, -mx), (0, mx, mx // 3), (mx, 0, -(mx // 5)),
                               (0, 0, 1), (mx, mx, -1), (0, mx, -1), (mx, 0, 1)):
            yield ("c10_iprange", [ver, sv, ver, ev, step, 10], "iprange_large")
    # family mismatch: TypeError at the first next()
    for _ in range(40 if tier == "quick" else 400):
        sver = rng.choice((4, 6))
        ever = 10 - sver
        yield ("c10_iprange", [sver, rng.choice((0, 1, gens.rand_value(rng, sver))), ever,
                               rng.choice((0, 1, gens.rand_value(rng, ever))), rng.choice((1, -1, 0, 5)), 4],
               "iprange_mismatch")


def builtin_cases(rng, tier):
    r = 6 if tier == "quick" else 9
    bounds = [None] + list(range(-r, r + 1))
    for n in range(0, 5 if tier == "quick" else 8):
        for a in bounds:
            for b in bounds:
                for c in (None, -4, -3, -2, -1, 0, 1, 2, 3, 4, n, -n, n + 1, -n - 1):
                    yield ("c10_slice_indices", [a, b, c, n], "slice_indices")
    big = [2 ** 31, 2 ** 32, 2 ** 63 - 1, 2 ** 63, 2 ** 64 + 1, 2 ** 128]
    for _ in range(300 if tier == "quick" else 6000):
        n = rng.choice(big + [rng.randrange(1, 2 ** 33)])

        def bd():
            k = rng.random()
            if k < 0.25:
                return None
            return rng.choice((0, 1, -1, n, -n, n - 1, -n + 1, n + 1, -n - 1, rng.randint(-n - 2, n + 2), 2 ** 200, -2 ** 200))
        yield ("c10_slice_indices", [bd(), bd(), rng.choice((None, 1, -1, 2, -2, n, -n, n + 1, 2 ** 100, -2 ** 100, 0)), n],
               "slice_indices_big")
    lb = [None] + list(range(-8, 9))
    for n in range(0, 6 if tier == "quick" else 7):
        l = [10 + 3 * k for k in range(n)]
        for i in range(-n - 3, n + 3):
            yield ("c10_list_index", [l, i], "list_index")
        for a in lb:
            for b in lb:
                for c in (None, -4, -3, -2, -1, 0, 1, 2, 3, 4):
                    yield ("c10_list_slice", [l, a, b, c], "list_slice")
    rr = 7 if tier == "quick" else 10
    for a in range(-rr, rr + 1):
        for b in range(-rr, rr + 1):
            for c in range(-5, 6):
                yield ("c10_range_len", [a, b, c], "range_len")
    for _ in range(300 if tier == "quick" else 6000):
        a = rng.choice((0, 1, -1, rng.randint(-2 ** 64, 2 ** 64), 2 ** 63, -2 ** 63))
        ln = rng.choice((0, 1, 2, 2 ** 32, 2 ** 63 - 2, 2 ** 63 - 1, 2 ** 63, 2 ** 63 + 1, rng.randrange(2 ** 66)))
        c = rng.choice((1, -1, 2, -2, 3, -7, rng.randint(1, 2 ** 40), -rng.randint(1, 2 ** 40)))
        b = a + c * ln + rng.choice((0, 0, 1, -1)) * rng.randrange(abs(c))
        yield ("c10_range_len", [a, b, c], "range_len_big")


def cases(rng, tier):
    for c in builtin_cases(rng, tier):
        yield c
    for c in iprange_cases(rng, tier):
        yield c
    for c in large_cases(rng, tier):
        yield c
    for c in small_cases(rng, tier):
        yield c


# ---- object-lifecycle checks (harness/lifecycle.py): objects with a history behave like fresh ones, results do not
# alias operands, failed mutators change nothing.  The functional model has no hidden state: its answer is "no discrepancy".
from harness import lifecycle as _life
IMPL.update(_life.IMPL)
ORACLE.update(_life.ORACLE)
EXACT = tuple(EXACT) + ("life",)
RULE = RULE + " | lifecycle: observe-mutate-observe vs a fresh object, aliasing of results, failure atomicity (glob, net, range)"
_cases_without_life = cases


def cases(rng, tier):
    yield from _cases_without_life(rng, tier)
    yield from _life.cases(rng, tier, {'glob', 'net', 'range'})
