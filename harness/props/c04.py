"""C04 — containment (`x in y`) and CIDR matching are exactly interval inclusion."""
from harness import gens
from harness.wire import Exn

PROP = "C04"
THEOREM_FILE = "Props/C04.v"
# coherence of the model copies (tools/claims/COH.json): obligations of this check on every run; five files so that they
# are re-checked in parallel
EXTRA_THEOREM_FILES = ["Props/Coherence.v", "Props/Coherence_Order.v", "Props/Coherence_Cidrs.v", "Props/Coherence_Text.v",
                       "Props/Coherence_Words.v", "Props/C04_src.v"]
EXTRA_THEOREM_FILES.append("Props/C04_src_match.v")     # (SRCE) source tie of the three matching functions and IPListMixin.__contains__
EXTRA_THEOREM_FILES.append("Props/C04_code.v")     # (CODA) code-level theorems: the property about the regenerated definitions
RULE = ("contains: containers (IPNetwork with/without host bits, IPRange, IPGlob, IPListMixin subclasses) drawn from the "
        "arenas, from every prefix 0..width at the bottom/top/middle of both address spaces and from random blocks; for "
        "each container, operands (IPAddress, IPNetwork with/without host bits, IPRange, IPGlob where glob-shaped, address "
        "and CIDR strings) whose end addresses lie in {first-1, first, first+1, last-1, last, last+1} of the container, "
        "plus arena blocks (nested, straddling, disjoint), the same numbers in the other family, and random ones; "
        "all_/smallest_/largest_matching: long candidate lists (40..900, thorough ..4000: a few containers among near misses) and lists of length <= 12 (ancestor chains of the address, siblings, "
        "arena blocks, duplicates, host bits, other-family and whole-space blocks, shuffled) handed over as objects, "
        "strings or a mix (host routes also as IPAddress objects / address strings); net_sort_key / sorted_nets tie the modelled sort to the implementation's")
EXACT = ("contains",)

W = gens.W


# ------------------------------------------------------------------ implementation adapters

def glob_str(s, e):
    """The glob spelling of the IPv4 range [s, e], or None when it is not glob-shaped (plain arithmetic)."""
    if not (0 <= s <= e <= 2 ** 32 - 1):
        return None
    k = 0
    while k < 4 and s % 256 ** (k + 1) == 0 and e % 256 ** (k + 1) == 256 ** (k + 1) - 1:
        k += 1
    if k == 4:
        return "*.*.*.*"
    if s % 256 ** k != 0 or e % 256 ** k != 256 ** k - 1:
        return None
    hs, he = s >> (8 * k), e >> (8 * k)
    if hs >> 8 != he >> 8:
        return None
    n = 4 - k
    lead = [str((hs >> (8 * i)) & 255) for i in range(n - 1, 0, -1)]
    lo, hi = hs & 255, he & 255
    mid = str(lo) if lo == hi else "%d-%d" % (lo, hi)
    return ".".join(lead + [mid] + ["*"] * k)


def _classes():
    import netaddr
    from netaddr.ip import IPListMixin

    class MixNet(netaddr.IPNetwork):          # a user subclass that falls back on the mixin's generic method
        __contains__ = IPListMixin.__contains__

    class MixRange(netaddr.IPRange):
        __contains__ = IPListMixin.__contains__
    return MixNet, MixRange


def _mk(kind, ver, a, b):
    import netaddr
    if kind == "addr":
        o = netaddr.IPAddress(a, ver)
        assert o._value == a and o.version == ver
        return o
    if kind in ("net", "mixnet"):
        cls = netaddr.IPNetwork if kind == "net" else _classes()[0]
        o = cls((a, b), version=ver)
        assert o._value == a and o._prefixlen == b and o.version == ver
        return o
    if kind in ("range", "mixrange"):
        cls = netaddr.IPRange if kind == "range" else _classes()[1]
        o = cls(netaddr.IPAddress(a, ver), netaddr.IPAddress(b, ver))
        assert o._start._value == a and o._end._value == b and o.version == ver
        return o
    if kind == "glob":
        g = glob_str(a, b)
        assert ver == 4 and g is not None
        o = netaddr.IPGlob(g)
        assert o._start._value == a and o._end._value == b and o.version == 4, (g, o)
        return o
    if kind == "addr_str":
        return str(netaddr.IPAddress(a, ver))
    if kind == "cidr_str":
        # the same network as text: CIDR, address/netmask or (prefix strictly inside 0..width) address/hostmask, chosen from the content
        w = 32 if ver == 4 else 128
        form = (a * 31 + b * 7 + ver) % 4
        if form == 1:
            return "%s/%s" % (netaddr.IPAddress(a, ver), netaddr.IPAddress((1 << w) - (1 << (w - b)), ver))
        if form == 2 and 0 < b < w:
            return "%s/%s" % (netaddr.IPAddress(a, ver), netaddr.IPAddress((1 << (w - b)) - 1, ver))
        return str(netaddr.IPNetwork((a, b), version=ver))
    raise AssertionError(kind)


def impl_contains(yk, yver, ya, yb, xk, xver, xa, xb):
    y = _mk(yk, yver, ya, yb)
    x = _mk(xk, xver, xa, xb)
    r = x in y
    assert r is True or r is False
    return r


def _nets(cands, form, rng_bits=0):
    import netaddr
    out = []
    for i, (ver, v, p) in enumerate(cands):
        n = netaddr.IPNetwork((v, p), version=ver)
        assert n._value == v and n._prefixlen == p
        as_str = form == 1 or (form == 2 and i % 2 == 0)
        if p == W[ver] and form != 0 and i % 3 == 1:
            # "a sequence of IP addresses and/or subnets": a host route may be given as an address
            a = netaddr.IPAddress(v, ver)
            out.append(str(a) if as_str else a)
        else:
            out.append(str(n) if as_str else n)
    return out


def _ip(ipver, ipv, form):
    import netaddr
    a = netaddr.IPAddress(ipv, ipver)
    return str(a) if form in (1, 2) else a


def _t(n):
    return [n.version, n._value, n._prefixlen]


def impl_all_matching(ipver, ipv, cands, form):
    import netaddr
    r = netaddr.all_matching_cidrs(_ip(ipver, ipv, form), _nets(cands, form))
    assert isinstance(r, list)
    return [_t(n) for n in r]


def impl_smallest(ipver, ipv, cands, form):
    import netaddr
    r = netaddr.smallest_matching_cidr(_ip(ipver, ipv, form), _nets(cands, form))
    return None if r is None else _t(r)


def impl_largest(ipver, ipv, cands, form):
    import netaddr
    r = netaddr.largest_matching_cidr(_ip(ipver, ipv, form), _nets(cands, form))
    return None if r is None else _t(r)


def impl_sort_key(ver, v, p):
    import netaddr
    k = netaddr.IPNetwork((v, p), version=ver).sort_key()
    return list(k)


def impl_sorted(cands):
    return [_t(n) for n in sorted(_nets(cands, 0))]


IMPL = {
    "contains": impl_contains,
    "all_matching": impl_all_matching,
    "smallest_matching": impl_smallest,
    "largest_matching": impl_largest,
    "net_sort_key": impl_sort_key,
    "sorted_nets": impl_sorted,
}


# ------------------------------------------------------------------ property oracles (plain integer arithmetic)

def interval(kind, ver, a, b):
    """(version, first, last) of the object denoted by the wire arguments."""
    w = W[ver]
    if kind in ("addr", "addr_str"):
        return ver, a, a
    if kind in ("net", "mixnet", "cidr_str"):
        size = 2 ** (w - b)
        first = a - a % size
        return ver, first, first + size - 1
    return ver, a, b


def orc_contains(args, res):
    yk, yver, ya, yb, xk, xver, xa, xb = args
    if isinstance(res, Exn):
        return "`x in y` raised %s for valid objects" % res.name
    yv, yf, yl = interval(yk, yver, ya, yb)
    xv, xf, xl = interval(xk, xver, xa, xb)
    exp = (xv == yv) and yf <= xf and xl <= yl
    if res is not exp:
        return "%s(%s) in %s(%s) is %r but interval inclusion is %r" % (xk, (xver, xa, xb), yk, (yver, ya, yb), res, exp)


def _matches(ipver, ipv, cands):
    out = []
    for ver, v, p in cands:
        _, f, l = interval("net", ver, v, p)
        if ver == ipver and f <= ipv <= l:
            out.append([ver, v, p])
    return out


def orc_all(args, res):
    ipver, ipv, cands, _ = args
    if isinstance(res, Exn):
        return "all_matching_cidrs raised %s" % res.name
    exp = _matches(ipver, ipv, cands)
    if sorted(res) != sorted(exp):
        return "all_matching_cidrs returned %r; the candidates containing the address are %r" % (res, sorted(exp))
    for a, b in zip(res, res[1:]):
        _, af, al = interval("net", *a)
        _, bf, bl = interval("net", *b)
        if not (a[2] <= b[2] and af <= bf and bl <= al):
            return "all_matching_cidrs result not ordered least->most specific: %r before %r" % (a, b)


def orc_extreme(pick):
    def f(args, res):
        ipver, ipv, cands, _ = args
        if isinstance(res, Exn):
            return "%s raised %s" % (pick, res.name)
        exp = _matches(ipver, ipv, cands)
        if not exp:
            return None if res is None else "%s returned %r but no candidate contains the address" % (pick, res)
        if res is None:
            return "%s returned None but %r contain the address" % (pick, exp)
        if res not in exp:
            return "%s returned %r which is not a candidate containing the address" % (pick, res)
        ps = [c[2] for c in exp]
        want = max(ps) if pick == "smallest_matching_cidr" else min(ps)
        if res[2] != want:
            return "%s returned /%d; the %s specific match is /%d" % (pick, res[2],
                                                                        "most" if pick.startswith("small") else "least", want)
    return f


ORACLE = {
    "contains": orc_contains,
    "all_matching": orc_all,
    "smallest_matching": orc_extreme("smallest_matching_cidr"),
    "largest_matching": orc_extreme("largest_matching_cidr"),
}


# ------------------------------------------------------------------ generators

def clamp(ver, v):
    return max(0, min(gens.maxint(ver), v))


def block_of(ver, a, p):
    """(first, last) of the prefix-p block around address a."""
    size = 2 ** (W[ver] - p)
    f = a - a % size
    return f, f + size - 1


def host_variant(rng, ver, first, p):
    """A stored value inside the block, usually with host bits set."""
    size = 2 ** (W[ver] - p)
    return first + rng.choice((0, size - 1, size // 2, rng.randrange(size)))


def operands(rng, ver, yf, yl, yp, arena, n_extra):
    """Operand objects (kind, ver, a, b) built around the interval [yf, yl] of a container."""
    w = W[ver]
    mx = gens.maxint(ver)
    ends = sorted(set(e for e in (yf - 1, yf, yf + 1, yl - 1, yl, yl + 1) if 0 <= e <= mx))
    out = []
    for e in ends:
        out.append(("addr", ver, e, 0))
    for i, s in enumerate(ends):
        for e in ends[i:]:
            out.append(("range", ver, s, e))
    # blocks one of whose ends is an interesting address
    plens = set((0, 1, w - 2, w - 1, w))
    if yp is not None:
        plens.update(p for p in (yp - 1, yp, yp + 1) if 0 <= p <= w)
    size = yl - yf + 1
    hb = size.bit_length() - 1          # blocks about as large as the container
    plens.update(p for p in (w - hb - 1, w - hb, w - hb + 1) if 0 <= p <= w)
    for _ in range(2):
        plens.add(rng.randrange(w + 1))
    for e in ends:
        for p in sorted(plens):
            f, _ = block_of(ver, e, p)
            out.append(("net", ver, f, p))
            out.append(("net", ver, e, p))                    # host bits: the stored value is the end itself
    if arena is not None:
        blocks = gens.arena_blocks(arena)
        for (bv, bf, bp) in (rng.sample(blocks, min(len(blocks), n_extra)) if blocks else ()):
            out.append(("net", bv, host_variant(rng, bv, bf, bp), bp))
            bl = bf + 2 ** (W[bv] - bp) - 1
            out.append(("range", bv, bf, bl))
            out.append(("range", bv, clamp(bv, bf - rng.randint(0, 2)), clamp(bv, bl + rng.randint(0, 2))))
        base = arena[1]
        span = 2 ** (w - arena[2])
        if span <= 256:
            for _ in range(n_extra):
                s = base + rng.randrange(span)
                e = base + rng.randrange(span)
                out.append(("range", ver, min(s, e), max(s, e)))
    for _ in range(n_extra):
        bv, v, p = gens.rand_block(rng, ver)
        out.append(("net", bv, v, p))
        out.append(("addr", ver, gens.rand_value(rng, ver), 0))
        s, e = gens.rand_value(rng, ver), gens.rand_value(rng, ver)
        out.append(("range", ver, min(s, e), max(s, e)))
    # the same numbers in the other family
    over = 6 if ver == 4 else 4
    omx = gens.maxint(over)
    if yl <= omx:
        out.append(("addr", over, yf, 0))
        out.append(("range", over, yf, yl))
        if yp is not None and 0 <= W[over] - (w - yp) <= W[over]:
            out.append(("net", over, yf, W[over] - (w - yp)))
        out.append(("net", over, yf, W[over]))
    out.append(("net", over, 0, 0))
    out.append(("range", over, 0, omx))
    # glob-shaped ranges also as IPGlob
    if ver == 4:
        for o in list(out):
            if o[0] == "range" and o[1] == 4 and glob_str(o[2], o[3]) is not None:
                out.append(("glob", 4, o[2], o[3]))
    # de-duplicate, keep order
    seen, res = set(), []
    for o in out:
        if o not in seen:
            seen.add(o)
            res.append(o)
    return res


def containers(rng, tier):
    """(kind, ver, a, b, yf, yl, yp, arena) for the containers of one run."""
    out = []
    n_arena = 10 if tier == "quick" else 400
    for arena in gens.ARENAS:
        ver, base, ap = arena
        w = W[ver]
        blocks = gens.arena_blocks(arena)
        if blocks:
            chosen = [blocks[0]] + rng.sample(blocks, min(len(blocks) - 1, n_arena))
            for (bv, bf, bp) in chosen:
                bl = bf + 2 ** (w - bp) - 1
                out.append(("net", bv, bf, bp, bf, bl, bp, arena))
                out.append(("net", bv, host_variant(rng, bv, bf, bp), bp, bf, bl, bp, arena))
                out.append(("range", bv, bf, bl, bf, bl, bp, arena))
            span = 2 ** (w - ap)
            for _ in range(n_arena):
                s = base + rng.randrange(span)
                e = base + rng.randrange(span)
                s, e = min(s, e), max(s, e)
                out.append(("range", ver, s, e, s, e, None, arena))
    # every prefix at the bottom, the top and the middle of each address space
    n_mid = 1 if tier == "quick" else 6
    for ver in (4, 6):
        w = W[ver]
        mx = gens.maxint(ver)
        plist = range(w + 1) if tier != "quick" else sorted(set([0, 1, 2, 7, 8, 9, 15, 16, 17, 23, 24, 25, w - 2, w - 1, w] +
                                                                [rng.randrange(w + 1) for _ in range(8)]))
        for p in plist:
            anchors = [0, mx] + [gens.rand_value(rng, ver) for _ in range(n_mid)]
            for a in anchors:
                f, l = block_of(ver, a, p)
                out.append(("net", ver, rng.choice((f, a)), p, f, l, p, None))
                out.append(("range", ver, f, l, f, l, p, None))
                s, e = clamp(ver, f + rng.choice((-1, 0, 1))), clamp(ver, l + rng.choice((-1, 0, 1)))
                if s <= e:
                    out.append(("range", ver, s, e, s, e, None, None))
        # multi-octet globs
        if ver == 4:
            for _ in range(12 if tier == "quick" else 300):
                k = rng.randrange(4)
                hi_part = rng.getrandbits(32 - 8 * k) >> 8 << 8
                lo, hi = sorted((rng.randrange(256), rng.randrange(256)))
                s = (hi_part | lo) << (8 * k)
                e = ((hi_part | hi) << (8 * k)) + 256 ** k - 1
                out.append(("range", 4, s, e, s, e, None, None))
    return out


def contains_cases(rng, tier):
    n_extra = 3 if tier == "quick" else 6
    for (yk, yver, ya, yb, yf, yl, yp, arena) in containers(rng, tier):
        ykinds = [yk]
        if yk == "range" and yver == 4 and glob_str(ya, yb) is not None:
            ykinds.append("glob")
        if rng.random() < 0.15:
            ykinds.append("mixnet" if yk == "net" else "mixrange")
        ops = operands(rng, yver, yf, yl, yp, arena, n_extra)
        for k in ykinds:
            sub = ops
            if tier == "quick" and len(ops) > 60:
                # always keep the addresses/ranges on the six end points; sample the rest
                head = [o for o in ops if o[0] in ("addr", "range") and o[1] == yver][:27]
                rest = [o for o in ops if o not in head]
                sub = head + rng.sample(rest, min(len(rest), 33))
            for (xk, xver, xa, xb) in sub:
                yield ("contains", [k, yver, ya, yb, xk, xver, xa, xb], "%s_in_%s" % (xk, k))
                if xk == "addr" and rng.random() < 0.5:
                    yield ("contains", [k, yver, ya, yb, "addr_str", xver, xa, 0], "addr_str_in_%s" % k)
                if xk == "net" and k in ("net",) and (rng.random() < 0.3 or xb in (0, W[xver])):
                    yield ("contains", [k, yver, ya, yb, "cidr_str", xver, xa, xb], "cidr_str_in_%s" % k)


def candidate_list(rng, ver, ip, arena):
    """A candidate list (<= 12 networks) around the address ip."""
    w = W[ver]
    over = 6 if ver == 4 else 4
    n = rng.randint(0, 12)
    out = []
    style = rng.choice(("chain", "mixed", "mixed", "siblings", "arena", "disjoint"))
    blocks = gens.arena_blocks(arena) if arena is not None else []
    while len(out) < n:
        r = rng.random()
        if style == "chain" or (style == "mixed" and r < 0.35):
            p = rng.choice((rng.randrange(w + 1), rng.randrange(w + 1), rng.randrange(w + 1), w, max(0, w - 1)))
            f, _ = block_of(ver, ip, p)
            out.append([ver, rng.choice((f, f, ip, host_variant(rng, ver, f, p))), p])
        elif style == "siblings" or (style == "mixed" and r < 0.55):
            p = rng.randrange(1, w + 1) if w else 0
            f, l = block_of(ver, ip, p)
            size = l - f + 1
            nf = f + rng.choice((-size, size, 0, 2 * size, -2 * size))
            if 0 <= nf <= gens.maxint(ver):
                out.append([ver, host_variant(rng, ver, nf, p) if rng.random() < 0.4 else nf, p])
        elif (style in ("arena", "disjoint") or r < 0.8) and blocks:
            bv, bf, bp = rng.choice(blocks)
            out.append([bv, host_variant(rng, bv, bf, bp) if rng.random() < 0.4 else bf, bp])
        elif r < 0.9:
            ov, v, p = gens.rand_block(rng, over)
            out.append([ov, rng.choice((v, 0, min(ip, gens.maxint(over)))), rng.choice((p, 0, W[over]))])
        else:
            bv, v, p = gens.rand_block(rng, ver)
            out.append([bv, v, p])
        if out and rng.random() < 0.12 and len(out) < n:
            out.append(list(rng.choice(out)))            # duplicate
    rng.shuffle(out)
    return out[:12]


def matching_cases(rng, tier):
    n = 2500 if tier == "quick" else 90000
    for i in range(n):
        arena = rng.choice(gens.ARENAS)
        ver, base, ap = arena
        w = W[ver]
        span = 2 ** (w - ap)
        r = rng.random()
        if span <= 256:
            ip = base + rng.randrange(span)
        elif r < 0.3:
            ip = rng.choice((0, 1, gens.maxint(ver), gens.maxint(ver) - 1))
        else:
            ip = gens.rand_value(rng, ver)
        cands = candidate_list(rng, ver, ip, arena if span <= 256 else None)
        form = rng.choice((0, 0, 1, 2))
        yield ("all_matching", [ver, ip, cands, form], "all_matching")
        yield ("smallest_matching", [ver, ip, cands, form], "smallest_matching")
        yield ("largest_matching", [ver, ip, cands, form], "largest_matching")
        if i % 4 == 0:
            yield ("sorted_nets", [cands], "sorted_nets")
            for c in cands[:3]:
                yield ("net_sort_key", list(c), "net_sort_key")


def cases(rng, tier):
    for c in contains_cases(rng, tier):
        yield c
    for c in matching_cases(rng, tier):
        yield c


# ---- object-lifecycle checks (harness/lifecycle.py): objects with a history behave like fresh ones, results do not
# alias operands, failed mutators change nothing.  The functional model has no hidden state: its answer is "no discrepancy".
from harness import lifecycle as _life
IMPL.update(_life.IMPL)
ORACLE.update(_life.ORACLE)
EXACT = tuple(EXACT) + ("life",)
RULE = RULE + " | lifecycle: observe-mutate-observe vs a fresh object, aliasing of results, failure atomicity (glob, net, range)"
_cases_without_life = cases


def cases(rng, tier):
    yield from _cases_without_life(rng, tier)
    yield from _life.cases(rng, tier, {'glob', 'net', 'range'})


# ---- long candidate lists (dozens to thousands): a few true containers of the address among many near misses (host routes
# and small blocks just below / above the address, siblings of its ancestors, blocks of the other family), shuffled -- a
# window, bisection or batching shortcut in the matching helpers needs lists of this length
_cases_without_long = cases


def long_candidates(rng, ver, ip, size):
    w = W[ver]
    mx = gens.maxint(ver)
    out = []
    for p in rng.sample(range(w + 1), rng.randint(0, min(5, w + 1))):           # true containers
        f, _ = block_of(ver, ip, p)
        out.append([ver, rng.choice((f, ip)), p])
    while len(out) < size:
        r = rng.random()
        if r < 0.45:        # host routes / small blocks near the address, on either side
            d = rng.randint(1, 4 * size) * rng.choice((-1, 1))
            v = min(mx, max(0, ip + d))
            p = rng.choice((w, w, w, max(0, w - 1), max(0, w - 2)))
            f, l = block_of(ver, v, p)
            if not (f <= ip <= l):
                out.append([ver, v, p])
        elif r < 0.7:       # the sibling of an ancestor of the address
            p = rng.randrange(1, w + 1)
            f, l = block_of(ver, ip, p)
            nf = f ^ (l - f + 1)
            if 0 <= nf <= mx:
                out.append([ver, nf, p])
        elif r < 0.85:
            bv, v, p = gens.rand_block(rng, ver)
            out.append([bv, v, p])
        else:
            ov = 10 - ver
            _, v, p = gens.rand_block(rng, ov)
            out.append([ov, rng.choice((v, min(ip, gens.maxint(ov)))), p])
    rng.shuffle(out)
    return out


def cases(rng, tier):
    yield from _cases_without_long(rng, tier)
    sizes = [40, 70, 150, 400, 900] if tier == "quick" else [40, 70, 150, 400, 1300, 4000] * 6
    for size in sizes:
        for ver in (4, 6):
            ips = (gens.rand_value(rng, ver), rng.choice((0, gens.maxint(ver), 5, gens.maxint(ver) - 5)), rng.getrandbits(24))
            for ip in (ips if size < 900 or tier != "quick" else ips[:1]):
                cands = long_candidates(rng, ver, ip, size)
                form = rng.choice((0, 0, 1, 2))
                yield ("all_matching", [ver, ip, cands, form], "all_matching_long")
                yield ("smallest_matching", [ver, ip, cands, form], "smallest_matching_long")
                yield ("largest_matching", [ver, ip, cands, form], "largest_matching_long")
