"""C06 — IPSet is canonical after any history, so equality is extensional."""
from harness import sets_common as sc

PROP = "C06"
THEOREM_FILE = "Props/C06.v"
EXTRA_THEOREM_FILES = ["Props/C06_bulk.v", "Props/C06_add.v", "Props/C06_src.v", "Props/C06_src_add.v", "Props/C06_src_bulk.v", "Props/C06_src_state.v"]
EXTRA_THEOREM_FILES.append("Props/C06_code.v")   # CODC: the C06 theorems stated about the regenerated definitions
RULE = ("random operation histories (length <= 30) on four IPSet registers over 1-3 small arenas at both ends of both "
        "address spaces plus wide blocks (/0, top/bottom ranges, globs, ints): every constructor form, add, remove, "
        "update, clear, pop, compact, copy, pickle (protocols 0-5) and | & - ^; after every step the stored keys (in dict "
        "order) are compared with the model and the shown list with the canonical list of the denoted address set "
        "computed by an independent interval algebra; == is compared with equality of denotations")
EXACT = ()
IMPL = {"sets_run": sc.impl_sets_run}
ORACLE = {"sets_run": sc.oracle_sets_run}

W_MUT = {"init": 3, "add": 8, "remove": 7, "update": 4, "clear": 0.5, "compact": 1, "pop": 1.5, "copy": 1.5, "pickle": 1,
         "union": 1.5, "inter": 1.5, "diff": 1.5, "xor": 1.5, "view": 1, "cmp": 2, "contains": 1}


def cases(rng, tier):
    n = 1500 if tier == "quick" else 60000
    for _ in range(n):
        yield ("sets_run", [sc.rand_history(rng, rng.randint(1, 30), W_MUT)], "history")
    for _ in range(8 if tier == "quick" else 300):
        yield ("sets_run", [sc.big_history(rng)], "big_sets")
