"""C15 — binary, bit, word, DNS and base-85 encodings are faithful and invertible (IPv4, IPv6, EUI-48, EUI-64)."""
import itertools

from harness import pystr_cases
from harness.wire import Exn

PROP = "C15"
THEOREM_FILE = "Props/C15.v"
EXTRA_THEOREM_FILES = ["Props/C15_src.v"]     # source tie: translated source = model (DESIGN 5.1b)
EXTRA_THEOREM_FILES.append("Props/C15_src_views.v")     # (SRCE) source tie of the IPAddress accessors bits / bin / words / packed / reverse_dns / __bytes__ / __hex__
EXTRA_THEOREM_FILES.append("Props/C15_src_ip.v")   # SRCC: strategy/ipv4.py, ipv6.py, strategy int_to_bits
EXTRA_THEOREM_FILES.append("Props/C15_src_b85.v")     # SRCB: rfc1924.py
EXTRA_THEOREM_FILES.append("Props/C15_code.v")   # CODB: code-level theorems (the C15 theorems stated about the regenerated definitions)
RULE = ("encoders: boundary values (0, 1, 2^k, 2^k+-1, max-2^k+-1, max) and random dense/sparse values of each of the 4 "
        "families x every built-in dialect (word size / separator), plus out-of-range values (-1, 2^w, ...); object "
        "accessors of IPAddress (packed, bytes(), bits(), bits(sep), bin, words, reverse_dns) and EUI (packed, bits(), "
        "bin, words); decoders on the independently computed encodings and on a malformed stream: length +-1..3, every "
        "character replaced by one of `2 9 a + - _ space tab b newline NBSP NEL US NUL`, sign/whitespace/underscore/0b prefixes, doubled 0b, "
        "words at 2^ws and -1, word tuples and byte strings of length n+-1, base-85 strings with an out-of-alphabet "
        "character, wrong length or value >= 2^128; exhaustive short strings for width-3 bits/bin decoders; the CPython "
        "builtin models (int(), formatting, struct, bin) on their own exhaustive/boundary streams")

# ---- the built-in families and dialects (the documented formats; independent of the source tree)
FAMS = {
    "ipv4": (32, [("", 8, 4, ".")]),
    "ipv6": (128, [("", 16, 8, ":")]),
    "eui48": (48, [("mac_eui48", 8, 6, "-"), ("mac_unix", 8, 6, ":"), ("mac_unix_expanded", 8, 6, ":"),
                   ("mac_cisco", 16, 3, "."), ("mac_bare", 48, 1, ""), ("mac_pgsql", 24, 2, ":"),
                   ("DEFAULT_DIALECT", 8, 6, "-")]),
    "eui64": (64, [("eui64_base", 8, 8, "-"), ("eui64_unix", 8, 8, ":"), ("eui64_unix_expanded", 8, 8, ":"),
                   ("eui64_cisco", 16, 4, "."), ("eui64_bare", 64, 1, ""), ("DEFAULT_EUI64_DIALECT", 8, 8, "-")]),
}
VER = {"ipv4": 4, "ipv6": 6, "eui48": 48, "eui64": 64}
FAM_OF_VER = {v: k for k, v in VER.items()}
DEFAULT = {"ipv4": "", "ipv6": "", "eui48": "mac_eui48", "eui64": "eui64_base"}
RFC1924 = "0123456789ABCDEFGHIJKLMNOPQRSTUVWXYZabcdefghijklmnopqrstuvwxyz!#$%&()*+-;<=>?@^_`{|}~"


def dparams(fam, name):
    w, ds = FAMS[fam]
    for n, ws, nw, sep in ds:
        if n == name:
            return w, ws, nw, sep
    raise KeyError((fam, name))


# ---- independent reference computations (plain integer arithmetic)
def ref_words(v, ws, nw):
    return [v // 2 ** (ws * (nw - 1 - i)) % 2 ** ws for i in range(nw)]


def ref_binfixed(v, n):
    return "".join("1" if v // 2 ** (n - 1 - i) % 2 else "0" for i in range(n))


def ref_bits(v, ws, nw, sep):
    return sep.join(ref_binfixed(x, ws) for x in ref_words(v, ws, nw))


def ref_bin(v):
    if v == 0:
        return "0b0"
    return "0b" + ref_binfixed(v, v.bit_length())


def ref_bytes(v, n):
    return "".join(chr(v // 256 ** (n - 1 - i) % 256) for i in range(n))


def ref_arpa(fam, v):
    if fam == "ipv4":
        return ".".join(str(v // 256 ** i % 256) for i in range(4)) + ".in-addr.arpa."
    return ".".join("0123456789abcdef"[v // 16 ** i % 16] for i in range(32)) + ".ip6.arpa."


def ref_b85(v):
    return "".join(RFC1924[v // 85 ** (19 - i) % 85] for i in range(20))


def ref_from_digits(ds, base):
    r = 0
    for d in ds:
        r = r * base + d
    return r


# ---- implementation adapters
def _s(b):
    assert isinstance(b, bytes), "not a bytes object: %r" % (b,)
    return b.decode("latin-1")


def _mod(fam):
    from netaddr.strategy import ipv4, ipv6, eui48, eui64
    return {"ipv4": ipv4, "ipv6": ipv6, "eui48": eui48, "eui64": eui64}[fam]


def _call(fam, name, fn, *a):
    m = _mod(fam)
    if fam in ("ipv4", "ipv6"):
        assert name == ""
        return getattr(m, fn)(*a)
    f = getattr(m, fn)
    if name in ("DEFAULT_DIALECT", "DEFAULT_EUI64_DIALECT"):
        # the module's default dialect: leave the argument out, so that the `dialect=None` default itself is exercised
        import inspect
        par = inspect.signature(f).parameters.get("dialect")
        if par is not None and par.default is None:
            return f(*a)
    return f(*a, getattr(m, name))


def _g(fn):
    def f(*a):
        import netaddr.strategy as S
        a = [tuple(x) if isinstance(x, list) else x for x in a]
        r = getattr(S, fn)(*a)
        return list(r) if isinstance(r, tuple) else r
    return f


def impl_int_to_words(fam, name, v):
    return list(_call(fam, name, "int_to_words", v))


def impl_ip_acc(ver, v):
    import netaddr
    ip = netaddr.IPAddress(v, ver)
    assert ip.version == ver and ip._value == v
    return [_s(ip.packed), _s(bytes(ip)), ip.bits(), ip.bin, list(ip.words), ip.reverse_dns]


def impl_ip_bits(ver, v, sep):
    import netaddr
    ip = netaddr.IPAddress(v, ver)
    return ip.bits(sep) if sep is not None else ip.bits()


def impl_eui_acc(ver, v):
    import netaddr
    e = netaddr.EUI(v, version=ver)
    assert e.version == ver and e._value == v
    return [_s(e.packed), e.bits(), e.bin, list(e.words)]


def impl_b85_enc(v):
    import netaddr
    from netaddr.ip import rfc1924
    r = rfc1924.ipv6_to_base85(v)
    if 0 <= v < 2 ** 128:
        assert rfc1924.ipv6_to_base85(netaddr.IPAddress(v, 6)) == r, "int and IPAddress arguments disagree"
    return r


def impl_b85_dec(s):
    import ipaddress
    from netaddr.ip import rfc1924
    r = rfc1924.base85_to_ipv6(s)
    return int(ipaddress.IPv6Address(r))


_FMT = {1: "B", 2: "H", 4: "I"}


def impl_struct_pack(sizes, vals):
    import struct
    return _s(struct.pack(">" + "".join(_FMT[s] for s in sizes), *vals))


def impl_struct_unpack(sizes, s):
    import struct
    return list(struct.unpack(">" + "".join(_FMT[x] for x in sizes), s.encode("latin-1")))


def impl_byte_bits(v):
    import netaddr.strategy as S
    assert len(S.BYTES_TO_BITS) == 256
    return S.BYTES_TO_BITS[v]


IMPL = {
    "c15_g_valid_words": _g("valid_words"), "c15_g_int_to_words": _g("int_to_words"),
    "c15_g_words_to_int": _g("words_to_int"), "c15_g_valid_bits": _g("valid_bits"),
    "c15_g_bits_to_int": _g("bits_to_int"), "c15_g_int_to_bits": _g("int_to_bits"),
    "c15_g_valid_bin": _g("valid_bin"), "c15_g_bin_to_int": _g("bin_to_int"), "c15_g_int_to_bin": _g("int_to_bin"),
    "c15_valid_words": lambda fam, name, ws: _call(fam, name, "valid_words", tuple(ws)),
    "c15_int_to_words": impl_int_to_words,
    "c15_words_to_int": lambda fam, name, ws: _call(fam, name, "words_to_int", tuple(ws)),
    "c15_int_to_bits": lambda fam, name, v: _call(fam, name, "int_to_bits", v),
    "c15_valid_bits": lambda fam, name, s: _call(fam, name, "valid_bits", s),
    "c15_bits_to_int": lambda fam, name, s: _call(fam, name, "bits_to_int", s),
    "c15_int_to_bin": lambda fam, v: _mod(fam).int_to_bin(v),
    "c15_valid_bin": lambda fam, s: _mod(fam).valid_bin(s),
    "c15_bin_to_int": lambda fam, s: _mod(fam).bin_to_int(s),
    "c15_int_to_packed": lambda fam, v: _s(_mod(fam).int_to_packed(v)),
    "c15_packed_to_int": lambda fam, s: _mod(fam).packed_to_int(s.encode("latin-1")),
    "c15_int_to_arpa": lambda fam, v: _mod(fam).int_to_arpa(v),
    "c15_ip_acc": impl_ip_acc, "c15_ip_bits": impl_ip_bits, "c15_eui_acc": impl_eui_acc,
    "c15_b85_enc": impl_b85_enc, "c15_b85_dec": impl_b85_dec,
    "c15_struct_pack": impl_struct_pack, "c15_struct_unpack": impl_struct_unpack,
    "c15_to_bytes": lambda n, v: _s(v.to_bytes(n, "big")),
    "c15_py_bin": lambda v: bin(v),
    "c15_byte_bits": impl_byte_bits,
    "c15_drop2": lambda s: s[2:],
}
IMPL.update(pystr_cases.IMPL)

EXACT = ("c15_g_valid_words", "c15_g_valid_bits", "c15_g_valid_bin", "c15_valid_words", "c15_valid_bits",
         "c15_valid_bin") + tuple(pystr_cases.EXACT)


# ---- property oracles: the statement of C15 evaluated on the implementation's own output
def _enc(expected_fn, in_range_fn):
    """encoder oracle: for values of the family the output must be the reference encoding (out of range: no claim)."""
    def f(args, res):
        if not in_range_fn(args):
            return None
        exp = expected_fn(args)
        if isinstance(res, Exn):
            return "encoder raised %s on a value of the family" % res.name
        if res != exp:
            return "encoding %r differs from the independent computation %r" % (res, exp)
    return f


def _dec(denote_fn):
    """decoder oracle: denote_fn(args) is the value the input denotes under the strict reading, or None when malformed;
    a well-formed input must decode to that value, a malformed one must raise."""
    def f(args, res):
        exp = denote_fn(args)
        if exp is None:
            if not isinstance(res, Exn):
                return "malformed input decoded to %r instead of raising" % (res,)
            return None
        if isinstance(res, Exn):
            return "well-formed input raised %s" % res.name
        if res != exp:
            return "decoded %r, the input denotes %r" % (res, exp)
    return f


def _valid(denote_fn):
    def f(args, res):
        exp = denote_fn(args) is not None
        if isinstance(res, Exn):
            return "validity predicate raised %s" % res.name
        if res is not exp:
            return "validity predicate says %r, strict reading says %r" % (res, exp)
    return f


def den_words(words, ws, nw):
    if len(words) != nw or any((not isinstance(x, int)) or x < 0 or x >= 2 ** ws for x in words):
        return None
    return ref_from_digits(words, 2 ** ws)


def den_bits(s, width, sep):
    t = s.replace(sep, "") if sep != "" else s      # separators may stand anywhere (judged not a violation, DESIGN §9)
    if len(t) != width or any(c not in "01" for c in t):
        return None
    return ref_from_digits([int(c) for c in t], 2)


def den_bin(s, width):
    if s[:2] != "0b":
        return None
    t = s[2:]
    if not (1 <= len(t) <= width) or any(c not in "01" for c in t):
        return None
    return ref_from_digits([int(c) for c in t], 2)


def den_packed(fam, s):
    if len(s) != FAMS[fam][0] // 8:
        return None
    return ref_from_digits([ord(c) for c in s], 256)


def den_b85(s):
    if len(s) != 20 or any(c not in RFC1924 for c in s):
        return None
    v = ref_from_digits([RFC1924.index(c) for c in s], 85)
    return v if v < 2 ** 128 else None


def _inr(fam, v):
    return 0 <= v < 2 ** FAMS[fam][0]


def orc_acc(kind):
    def f(args, res):
        ver, v = args
        fam = FAM_OF_VER[ver]
        w = FAMS[fam][0]
        if isinstance(res, Exn):
            return "accessor raised %s" % res.name
        _, ws, nw, sep = dparams(fam, DEFAULT[fam])
        if kind == "ip":
            exp = [ref_bytes(v, w // 8), ref_bytes(v, w // 8), ref_bits(v, ws, nw, sep), ref_bin(v), ref_words(v, ws, nw),
                   ref_arpa(fam, v)]
            names = ["packed", "bytes", "bits", "bin", "words", "reverse_dns"]
        else:
            exp = [ref_bytes(v, w // 8), ref_bits(v, ws, nw, sep), ref_bin(v), ref_words(v, ws, nw)]
            names = ["packed", "bits", "bin", "words"]
        bad = [n for n, a, b in zip(names, res, exp) if a != b]
        if bad or len(res) != len(exp):
            return "accessor(s) %s differ from the independent computation" % ",".join(bad)
    return f


ORACLE = {
    "c15_g_int_to_words": _enc(lambda a: ref_words(a[0], a[1], a[2]), lambda a: 0 <= a[0] < 2 ** (a[1] * a[2])),
    "c15_g_int_to_bits": _enc(lambda a: ref_bits(a[0], a[1], a[2], a[3]), lambda a: 0 <= a[0] < 2 ** (a[1] * a[2])),
    "c15_g_int_to_bin": _enc(lambda a: ref_bin(a[0]), lambda a: 0 <= a[0] < 2 ** a[1]),
    "c15_g_words_to_int": _dec(lambda a: den_words(a[0], a[1], a[2])),
    "c15_g_valid_words": _valid(lambda a: den_words(a[0], a[1], a[2])),
    "c15_g_bits_to_int": _dec(lambda a: den_bits(a[0], a[1], a[2])),
    "c15_g_valid_bits": _valid(lambda a: den_bits(a[0], a[1], a[2])),
    "c15_g_bin_to_int": _dec(lambda a: den_bin(a[0], a[1])),
    "c15_g_valid_bin": _valid(lambda a: den_bin(a[0], a[1])),
    "c15_int_to_words": _enc(lambda a: ref_words(a[2], *dparams(a[0], a[1])[1:3]), lambda a: _inr(a[0], a[2])),
    "c15_int_to_bits": _enc(lambda a: ref_bits(a[2], *dparams(a[0], a[1])[1:]), lambda a: _inr(a[0], a[2])),
    "c15_words_to_int": _dec(lambda a: den_words(a[2], *dparams(a[0], a[1])[1:3])),
    "c15_valid_words": _valid(lambda a: den_words(a[2], *dparams(a[0], a[1])[1:3])),
    "c15_bits_to_int": _dec(lambda a: den_bits(a[2], FAMS[a[0]][0], dparams(a[0], a[1])[3])),
    "c15_valid_bits": _valid(lambda a: den_bits(a[2], FAMS[a[0]][0], dparams(a[0], a[1])[3])),
    "c15_int_to_bin": _enc(lambda a: ref_bin(a[1]), lambda a: _inr(a[0], a[1])),
    "c15_bin_to_int": _dec(lambda a: den_bin(a[1], FAMS[a[0]][0])),
    "c15_valid_bin": _valid(lambda a: den_bin(a[1], FAMS[a[0]][0])),
    "c15_int_to_packed": _enc(lambda a: ref_bytes(a[1], FAMS[a[0]][0] // 8), lambda a: _inr(a[0], a[1])),
    "c15_packed_to_int": _dec(lambda a: den_packed(a[0], a[1])),
    "c15_int_to_arpa": _enc(lambda a: ref_arpa(a[0], a[1]), lambda a: _inr(a[0], a[1])),
    "c15_ip_acc": orc_acc("ip"), "c15_eui_acc": orc_acc("eui"),
    "c15_ip_bits": _enc(lambda a: ref_bits(a[1], *(dparams(FAM_OF_VER[a[0]], "")[1:3]),
                                           dparams(FAM_OF_VER[a[0]], "")[3] if a[2] is None else a[2]),
                        lambda a: True),
    "c15_b85_enc": _enc(lambda a: ref_b85(a[0]), lambda a: 0 <= a[0] < 2 ** 128),
    "c15_b85_dec": _dec(lambda a: den_b85(a[0])),
}


# ---- generators
def vals(rng, w, nrand, cap=None):
    mx = 2 ** w - 1
    s = {0, 1, 2, mx, mx - 1}
    for k in range(w + 1):
        for d in (-1, 0, 1):
            for v in (2 ** k + d, mx - 2 ** k + d):
                if 0 <= v <= mx:
                    s.add(v)
    b = sorted(s)
    if cap is not None and len(b) > cap:
        keep = set(b[:6] + b[-6:])
        keep.update(rng.sample(b, cap - 12))
        b = sorted(keep)
    out = list(b)
    if w == 128:
        # IPv4-mapped / IPv4-compatible blocks (printed with a dotted tail by some dialects) and small values
        for base in (0, 0xffff00000000, 0xfffe00000000):
            for d in (0, 1, 0x01020304, 0xffffffff, rng.getrandbits(32)):
                out.append(base + d)
    for _ in range(nrand):
        r = rng.random()
        if r < 0.4:
            v = rng.getrandbits(w)
        elif r < 0.6:
            v = 0
            for _ in range(rng.randint(1, 4)):
                v |= 1 << rng.randrange(w)
        elif r < 0.8:
            v = mx
            for _ in range(rng.randint(1, 4)):
                v &= ~(1 << rng.randrange(w))
        else:   # leading-zero patterns: short values, values with one zero byte/word
            v = rng.getrandbits(rng.randint(1, w))
        out.append(v)
    return out


def out_of_range(rng, w):
    return [-1, 2 ** w, 2 ** w + 1, -2 ** w, 2 ** (w + 8) + rng.getrandbits(w), -rng.getrandbits(w) - 1,
            2 ** w + rng.getrandbits(w)]


FOREIGN = ["2", "9", "a", "+", "-", "_", " ", "\t", "b", "\n", "\xa0", "\x85", "\x1f", "\0"]


def mutate_len(rng, s, alphabet):
    """length +-1..3"""
    out = []
    for k in (1, 2, 3):
        if len(s) >= k:
            out.append(s[k:])
            out.append(s[:-k])
            i = rng.randrange(len(s) - k + 1)
            out.append(s[:i] + s[i + k:])
        ins = "".join(rng.choice(alphabet) for _ in range(k))
        out.append(ins + s)
        out.append(s + ins)
        i = rng.randrange(len(s) + 1)
        out.append(s[:i] + ins + s[i:])
    return out


def mutate_chars(rng, s, positions=None, foreign=FOREIGN):
    idx = range(len(s)) if positions is None else positions
    for i in idx:
        for c in foreign:
            if s[i] != c:
                yield s[:i] + c + s[i + 1:]


def bits_malformed(rng, s, sep, tier):
    """malformed (and a few still well-formed) variants of a valid bits string"""
    out = mutate_len(rng, s, "01")
    pos = None if tier != "quick" else sorted(set([0, 1, len(s) - 1] + [rng.randrange(len(s)) for _ in range(3)]))
    out += list(mutate_chars(rng, s, pos))
    # the F-14 shapes: sign / whitespace / underscore / prefix replacing leading characters
    out += ["+" + s[1:], "-" + s[1:], " " + s[1:], s[:-1] + " ", s[:-1] + "\n", "0b" + s[2:], "0B" + s[2:], "0b_" + s[3:],
            s[:3] + "_" + s[4:], "+" + s, " " + s, s + " ", "0b" + s]
    if sep:
        t = s.replace(sep, "")
        out += [t, sep + t, t + sep, s.replace(sep, rng.choice([c for c in ".:- " if c != sep])), sep * 3 + t]
    return out


def cases(rng, tier):
    quick = tier == "quick"
    # ---- builtin models
    yield from pystr_cases.cases(rng, tier)
    for n in range(256):
        yield ("c15_byte_bits", [n], "builtin")
    for v in [0, 1, 2, 3, 255, 256, -1, -2, -255, 2 ** 32, 2 ** 128 - 1, -2 ** 64] + [rng.getrandbits(rng.randint(1, 130)) * rng.choice((1, 1, -1))
                                                                                      for _ in range(100 if quick else 3000)]:
        yield ("c15_py_bin", [v], "builtin")
    for s in ["", "0", "0b", "0b1", "-0b1", "abc"]:
        yield ("c15_drop2", [s], "builtin")
    formats = [[4], [4, 4, 4, 4], [2, 4], [1] * 6, [1] * 8, [1] * 4, [2] * 8]
    for sizes in formats:
        n = sum(sizes)
        for _ in range(30 if quick else 600):
            vs = [rng.choice([0, 1, 256 ** s - 1, 256 ** s, -1, rng.getrandbits(8 * s), rng.getrandbits(8 * s)]) for s in sizes]
            if rng.random() < 0.1:
                vs = vs[:-1] if rng.random() < 0.5 else vs + [0]
            yield ("c15_struct_pack", [sizes, vs], "builtin")
            ln = rng.choice([n, n, n, n, n - 1, n + 1, 0])
            yield ("c15_struct_unpack", [sizes, "".join(chr(rng.choice([0, 255, rng.randrange(256)])) for _ in range(ln))], "builtin")
    for n in (4, 6, 8, 16):
        for v in [0, 1, 256 ** n - 1, 256 ** n, -1] + [rng.getrandbits(8 * n) for _ in range(20 if quick else 500)]:
            yield ("c15_to_bytes", [n, v], "builtin")

    # ---- the four families
    for fam, (w, dialects) in FAMS.items():
        ver = VER[fam]
        nb = w // 8
        nrand = 40 if quick else 1500
        V = vals(rng, w, nrand, cap=70 if quick else None)
        oor = out_of_range(rng, w)
        for v in V + oor:
            yield ("c15_int_to_bin", [fam, v], "enc_" + fam)
            yield ("c15_int_to_packed", [fam, v], "enc_" + fam)
            if fam in ("ipv4", "ipv6"):
                yield ("c15_int_to_arpa", [fam, v], "enc_" + fam)
        for v in V:
            if fam in ("ipv4", "ipv6"):
                yield ("c15_ip_acc", [ver, v], "acc_" + fam)
                for sep in (None, "", ".", ":", "-", " ", "::", "01"):
                    if sep is None or rng.random() < (0.3 if quick else 1.0):
                        yield ("c15_ip_bits", [ver, v, sep], "acc_" + fam)
            else:
                yield ("c15_eui_acc", [ver, v], "acc_" + fam)
            # decoders on the independently computed encodings
            yield ("c15_bin_to_int", [fam, ref_bin(v)], "dec_" + fam)
            yield ("c15_valid_bin", [fam, ref_bin(v)], "dec_" + fam)
            yield ("c15_packed_to_int", [fam, ref_bytes(v, nb)], "dec_" + fam)
        for (name, ws, nw, sep) in dialects:
            for v in V + oor:
                yield ("c15_int_to_words", [fam, name, v], "enc_" + fam)
                yield ("c15_int_to_bits", [fam, name, v], "enc_" + fam)
            for v in V:
                yield ("c15_words_to_int", [fam, name, ref_words(v, ws, nw)], "dec_" + fam)
                yield ("c15_valid_words", [fam, name, ref_words(v, ws, nw)], "dec_" + fam)
                yield ("c15_bits_to_int", [fam, name, ref_bits(v, ws, nw, sep)], "dec_" + fam)
                yield ("c15_valid_bits", [fam, name, ref_bits(v, ws, nw, sep)], "dec_" + fam)
        # ---- malformed stream
        nm = 6 if quick else 60
        for v in [0, 1, 2 ** w - 1] + [rng.getrandbits(w) for _ in range(nm)]:
            for (name, ws, nw, sep) in dialects:
                if quick and name in ("DEFAULT_DIALECT", "DEFAULT_EUI64_DIALECT", "mac_unix_expanded", "eui64_unix_expanded") \
                        and rng.random() < 0.8:
                    continue
                good = ref_bits(v, ws, nw, sep)
                for s in bits_malformed(rng, good, sep, tier):
                    yield ("c15_bits_to_int", [fam, name, s], "mal_bits")
                    if rng.random() < 0.3:
                        yield ("c15_valid_bits", [fam, name, s], "mal_bits")
                words = ref_words(v, ws, nw)
                bad = []
                for i in sorted(set([0, nw - 1, rng.randrange(nw)])):
                    for x in (2 ** ws, -1, 2 ** ws - 1, 2 ** ws + 1, -2 ** ws, 2 ** (ws + 3)):
                        bad.append(words[:i] + [x] + words[i + 1:])
                bad += [words[:-1], words[1:], words + [0], [0] + words, [], words + words, words[:-1] + [2 ** ws] + [0]]
                for b in bad:
                    yield ("c15_words_to_int", [fam, name, b], "mal_words")
                    yield ("c15_valid_words", [fam, name, b], "mal_words")
            good = ref_bin(v)
            bl = mutate_len(rng, good, "01") + list(mutate_chars(rng, good, None if not quick else
                                                                 sorted(set([0, 1, 2, len(good) - 1, rng.randrange(len(good))]))))
            body = good[2:]
            bl += ["0b" + good, good + "0b", "0b" + body[:1] + "0b" + body[1:], "0b0b1", "0b", "0B" + body, body, "0b+" + body,
                   "0b-" + body, "0b " + body, good + " ", " " + good, "0b_" + body, "0b" + body[:1] + "_" + body[1:],
                   "0b" + "0" * (w - len(body)) + body, "0b" + "0" * (w - len(body) + 1) + body, "0b" + "1" * (w + 1),
                   "0b" + "1" * w, "0b1" + "0" * w, "+0b" + body, "-0b" + body, "0b" + body + "\n", "00b" + body, "b" + body, "0" + body]
            for s in bl:
                yield ("c15_bin_to_int", [fam, s], "mal_bin")
                if rng.random() < 0.5:
                    yield ("c15_valid_bin", [fam, s], "mal_bin")
            p = ref_bytes(v, nb)
            for s in [p[:-1], p[1:], p + "\0", "\0" + p, p + p, "", p[:1], p[:-2], p + "\xff\xff", p[: nb // 2]]:
                yield ("c15_packed_to_int", [fam, s], "mal_packed")

    # ---- generic functions on small widths, exhaustively over short strings
    alpha = "01.2+_ b-"
    maxlen = 5 if quick else 6
    for n in range(0, maxlen + 1):
        for t in itertools.product(alpha if n < maxlen else alpha[:6], repeat=n):
            s = "".join(t)
            if quick and n >= 5 and rng.random() > 0.25:
                continue
            yield ("c15_g_bits_to_int", [s, 3, "."], "small_bits")
            yield ("c15_g_valid_bits", [s, 3, "."], "small_bits")
            if "." not in s:
                yield ("c15_g_bits_to_int", [s, 3, ""], "small_bits")
            if s.startswith("0") or n <= 3:
                yield ("c15_g_bin_to_int", [s, 3], "small_bin")
                yield ("c15_g_valid_bin", [s, 3], "small_bin")
    for ws, nw in ((1, 3), (2, 2), (3, 1), (8, 2), (4, 3), (5, 2)):
        for v in range(-1, 2 ** min(ws * nw, 8) + 2):
            yield ("c15_g_int_to_words", [v, ws, nw], "small_words")
            yield ("c15_g_int_to_bits", [v, ws, nw, rng.choice(["", ".", ":"])], "small_words")
            yield ("c15_g_int_to_bin", [v, ws * nw], "small_words")
        for t in itertools.product(range(-1, 2 ** min(ws, 3) + 2), repeat=nw):
            yield ("c15_g_words_to_int", [list(t), ws, nw], "small_words")
            yield ("c15_g_valid_words", [list(t), ws, nw], "small_words")
        yield ("c15_g_words_to_int", [[0] * (nw + 1), ws, nw], "small_words")
        yield ("c15_g_words_to_int", [[0] * (nw - 1), ws, nw], "small_words")

    # ---- RFC 1924
    V = vals(rng, 128, 60 if quick else 3000, cap=120 if quick else None)
    for v in V + out_of_range(rng, 128) + [85 ** k + d for k in range(0, 20) for d in (-1, 0, 1) if 85 ** k + d >= 0]:
        yield ("c15_b85_enc", [v], "b85")
        if 0 <= v < 2 ** 128:
            yield ("c15_b85_dec", [ref_b85(v)], "b85")
    outside = [chr(c) for c in range(0, 256) if chr(c) not in RFC1924]
    for v in [0, 1, 2 ** 128 - 1] + [rng.getrandbits(128) for _ in range(10 if quick else 300)]:
        good = ref_b85(v)
        for s in mutate_len(rng, good, RFC1924):
            yield ("c15_b85_dec", [s], "mal_b85")
        pos = None if not quick else sorted(set([0, 19, rng.randrange(20)]))
        for s in mutate_chars(rng, good, pos, foreign=[rng.choice(outside) for _ in range(4)] + [" ", '"', "/", ":", "\x7f"]):
            yield ("c15_b85_dec", [s], "mal_b85")
    big = [2 ** 128, 2 ** 128 + 1, 85 ** 20 - 1, 85 ** 20 - 85, 2 ** 129] + [2 ** 128 + rng.getrandbits(127) for _ in range(20 if quick else 500)]
    big += [rng.randrange(2 ** 128, 85 ** 20) for _ in range(20 if quick else 500)]
    for v in big:
        yield ("c15_b85_dec", [ref_b85(v)], "mal_b85")
    yield ("c15_b85_dec", ["~" * 20], "mal_b85")
    yield ("c15_b85_dec", [""], "mal_b85")


# ---- object-lifecycle checks (harness/lifecycle.py): objects with a history behave like fresh ones, results do not
# alias operands, failed mutators change nothing.  The functional model has no hidden state: its answer is "no discrepancy".
from harness import lifecycle as _life
IMPL.update(_life.IMPL)
ORACLE.update(_life.ORACLE)
EXACT = tuple(EXACT) + ("life",)
RULE = RULE + " | lifecycle: observe-mutate-observe vs a fresh object, aliasing of results, failure atomicity (addr, eui)"
_cases_without_life = cases


def cases(rng, tier):
    yield from _cases_without_life(rng, tier)
    yield from _life.cases(rng, tier, {'addr', 'eui'})


# ---- text beyond latin-1 (harness/unistream.py): Unicode digits, blanks and separator look-alikes substituted into valid texts must
# be refused by the strict entry points in the prescribed way.  Outside the 8-bit alphabet of the model: its answer is "no discrepancy".
from harness import unistream as _uni
IMPL.update(_uni.IMPL)
ORACLE.update(_uni.ORACLE)
EXACT = tuple(EXACT) + ("uni",)
RULE = RULE + " | text beyond latin-1 (Unicode digits / blanks / look-alikes in valid texts) at the strict entry points: bits4, bits6, bin4"
_cases_without_uni = cases


def cases(rng, tier):
    yield from _cases_without_uni(rng, tier)
    yield from _uni.cases(rng, tier, ('bits4', 'bits6', 'bin4'))
