"""Development pseudo-property: run the object-lifecycle checks alone (`./check LIFE`)."""
from harness import lifecycle
PROP = "LIFE"
THEOREM_FILE = "Props/PyStr.v"
RULE = "object lifecycle checks"
IMPL = dict(lifecycle.IMPL)
ORACLE = dict(lifecycle.ORACLE)
EXACT = ("life",)
ANCHOR_FILES = []


def cases(rng, tier):
    yield from lifecycle.cases(rng, tier, {"addr", "net", "glob", "range", "eui"})
