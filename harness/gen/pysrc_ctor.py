"""Source translator, constructors and the network parser (tag SRCD): class CtorFn, the reader of the units listed in
CTOR_FN_UNITS of harness/gen/pysrc.py (coq/Gen/pysrc_ctor_gen.v, pysrc_parse_gen.v).  It is harness/gen/pysrc.py's Fn plus the
constructs below; everything it does not override is Fn's (same subset, same conventions, FAIL CLOSED through pysrc.bad).
This module generates no file of its own (generate() is empty): pysrc.generate() writes the units.

Reading of the added constructs (all of it trusted translator input, with the tables CTOR_UNITS / UNIT_SEES of pysrc.py and the
tables at the top of this file):
* Constructors.  `__init__` / `__setstate__` of a class listed in CTOR_STATE builds (or overwrites) the object state: the listed
  attributes `self._a` are read and written like locals `self_a` (Fn.prepare), `super(C, self).__init__()` is the body of the next
  `__init__` along the bases (BaseIP.__init__: both attributes None), and leaving the function (end of body, bare `return`) answers
  the finished object: IPAddress (version, value) : Z * Z; IPNetwork {| nver; nval; nplen |}; IPRange (version, start value, end
  value).  A path that leaves with an attribute unset or None is rejected at translation time.  In `__setstate__` every
  attribute starts unset.  An exception leaves no object (`Raise e`).
* Strategy modules are represented by their version: `_ipv4` / `_ipv6` = src_ipv4_version / src_ipv6_version (type `mod`, Coq Z);
  for a module-valued expression m: m.version = m, m.width = (width m), m.max_int = (max_int_w (width m)) -- the same reading as
  Fn's fixed attribute environment, justified for the two modules by Proofs/GenOk_Src_Const.v src_consts_ok.  The functions and
  tables of the strategy modules that are not translated here are prelude symbols = the hand model's functions
  (Model/SrcPreludeCtor.v): m.str_to_int(s, flags) = py_str_to_int be m s flags, m.int_to_str(v) = py_int_to_str be m v, ...
  `be` (Model/AddrText.v backend: platform socket functions | netaddr.fbsocket) is a leading parameter of every generated
  definition that reaches such a symbol.
* Tests decided by the type of a name (declared for a parameter of the specialisation, inferred for a local): `x is None` /
  `is not None` (None-typed: true; any value type: false), `_is_str(x)`, `isinstance(x, C)` for C in _int_type _str_type tuple
  BaseIP IPAddress IPNetwork, `hasattr(x, '_value' | '_prefixlen')`.  For `x : optint / optstr` (None or a value) `x is None` is
  `match x with Some x => .. | None => .. end`, x being the value / None in the arms.  `if a and b: X else: Y` with such a test
  among the operands is `if a: (if b: X else: Y) else: Y` (same for `or`), so that the later operands are read under the
  refinement the earlier ones establish (Python's short-circuit order).
* `try: B / except E1: H1 / except E2: H2 [/ else: L]` (no finally): a maximal prefix of B that cannot raise (in the translator's
  reading) runs before the try; if nothing of B can raise the try is B.  Else
  `match <B> with Ok <variables B assigns> => L; rest | Raise e => if <E1 catches e> then H1; rest else if .. else Raise e end`;
  bare `except:` catches everything but the modelling devices OutOfFuel / Unsupported (py_catch_all), `except E` / `except (E1,
  E2)` compare by class (exn_eqb; no listed class derives from another).  In a handler a name assigned inside B keeps its earlier
  binding if its only assignment is B's last statement (a plain assignment, which did not happen), else it is unbound.
* `for x in (a, b): body` over a literal tuple is unrolled: body with x = a, then with x = b; `continue` = the next copy, `break` =
  the statements after the loop.
* Text: `'c' in s` for a one-character literal = contains_char (Base/PyStr.v).
"""
import ast
import copy
import re

from harness.gen import pysrc
from harness.gen.pysrc import bad, dotted, Fn, EXN

# classes whose __init__ / __setstate__ are translated as constructors: class -> [(attribute, local name)]
CTOR_STATE = {"BaseIP": ("_value", "_module"), "IPAddress": ("_value", "_module"),
              "IPNetwork": ("_value", "_module", "_prefixlen"), "IPRange": ("_start", "_end", "_module")}
CTOR_METHODS = ("__init__", "__setstate__")
OBJECT = "__object__"        # the synthetic `return __object__` that ends a constructor
# isinstance(x, C) by the type of x: type -> the class names it is an instance of (every other listed name: not an instance)
CORE_FLAGS = ("INET_PTON", "NOHOST", "ZEROFILL")       # int constants of netaddr/core.py, read from its text
DICTS = ("prefix_to_netmask", "netmask_to_prefix", "prefix_to_hostmask", "hostmask_to_prefix")    # tables of the strategy modules
CLASSES = ("_int_type", "_str_type", "tuple", "BaseIP", "IPAddress", "IPNetwork", "IPRange")
INSTANCE = {"int": ("_int_type",), "str": ("_str_type",), "obj": ("BaseIP", "IPAddress"), "net": ("BaseIP", "IPNetwork"),
            "inttuple": ("tuple",), "tup": ("tuple",), "none": ()}
# hasattr(x, name) by the type of x
HASATTR2 = {"_value": ("obj", "net"), "_prefixlen": ("net",)}
HASATTR2_TYPES = ("int", "str", "obj", "net", "inttuple", "tup", "none")
OPTIONAL = {"optint": "int", "optstr": "str"}


def generate():
    return {}


def core_const(name, node):
    """the int literal that netaddr/core.py binds `name` to (its only top-level binding, possibly chained: P = INET_PTON = 1)"""
    fn = "netaddr/core.py"
    mod = pysrc.Module(fn)
    ds = [a for a in mod.tree.body for n in ast.walk(a) if isinstance(n, ast.Name) and n.id == name and isinstance(n.ctx, ast.Store)]
    if (len(ds) != 1 or not isinstance(ds[0], ast.Assign) or not all(isinstance(t, ast.Name) for t in ds[0].targets)
            or pysrc.const_int(ds[0].value) is None or mod.imports.get(name)):
        bad(node, "%s is not bound once, at top level, to an int literal" % name, fn)
    return pysrc.const_int(ds[0].value)


def tyname(ty):
    return ty if isinstance(ty, str) else ty[0]


class CtorFn(Fn):
    uses_be = False

    # ---- constructor state as locals
    def prepare(self, f):
        self.is_ctor = self.pyname in CTOR_METHODS and self.recv in CTOR_STATE
        if not self.is_ctor:
            return f
        f = copy.deepcopy(f)
        if any(isinstance(n, ast.Name) and (n.id == OBJECT or n.id.startswith("self_")) for n in ast.walk(f)):
            bad(f, "constructor that uses a name reserved by the translator")
        f.body = self.state_locals(f.body, self.owner, 0)
        last = f.body[-1]
        end = ast.copy_location(ast.Return(value=ast.copy_location(ast.Name(id=OBJECT, ctx=ast.Load()), last)), last)
        end.lineno = end.end_lineno = f.end_lineno
        f.body.append(end)
        return ast.fix_missing_locations(f)

    def state_locals(self, body, cls, depth):
        fn, attrs = self, CTOR_STATE[self.recv]

        class T(ast.NodeTransformer):
            def visit_Attribute(self, n):
                if isinstance(n.value, ast.Name) and n.value.id == "self" and n.attr in attrs:
                    return ast.copy_location(ast.Name(id="self" + n.attr, ctx=n.ctx), n)
                return self.generic_visit(n)

            def visit_Return(self, st):
                st = self.generic_visit(st)
                if st.value is None or (isinstance(st.value, ast.Constant) and st.value.value is None):
                    st.value = ast.copy_location(ast.Name(id=OBJECT, ctx=ast.Load()), st)
                return st

            def visit_Expr(self, st):
                v = st.value
                if (isinstance(v, ast.Call) and isinstance(v.func, ast.Attribute) and v.func.attr == "__init__"
                        and isinstance(v.func.value, ast.Call) and dotted(v.func.value.func) == "super"):
                    sup = v.func.value
                    if (v.args or v.keywords or sup.keywords or [dotted(a) for a in sup.args] != [cls, "self"] or depth > 4
                            or fn.mod.toplevel("super")):
                        bad(st, "super() call other than super(<this class>, self).__init__()")
                    r = None
                    for b in fn.mod.classes[cls].bases:          # the next __init__ along the bases (depth-first, as Module.lookup)
                        r = fn.mod.lookup(dotted(b), "__init__")
                        if r:
                            break
                    if not r or r[2] or [a.arg for a in r[1].args.args] != ["self"] or r[1].args.vararg or r[1].args.kwarg:
                        bad(st, "super().__init__ is not a plain __init__(self) of a base class")
                    if any(isinstance(n, ast.Attribute) and isinstance(n.value, ast.Name) and n.value.id == "self"
                           and not isinstance(n.ctx, ast.Load) and n.attr not in attrs for n in ast.walk(r[1])):
                        bad(st, "base __init__ assigns an attribute that is not part of the declared object state")
                    inner = copy.deepcopy(r[1].body)
                    if inner and isinstance(inner[0], ast.Expr) and isinstance(inner[0].value, ast.Constant):
                        inner = inner[1:]
                    if any(isinstance(n, ast.Return) for x in inner for n in ast.walk(x)):
                        bad(st, "base __init__ with a return statement")
                    fn.inlined = getattr(fn, "inlined", []) + [(r[0], r[1])]
                    return fn.state_locals(inner, r[0], depth + 1) or [ast.copy_location(ast.Pass(), st)]
                return self.generic_visit(st)
        out = []
        for st in body:
            r = T().visit(st)
            out += r if isinstance(r, list) else [r]
        return out

    def initial_env(self, env):
        env = dict(env)
        if self.is_ctor:                 # no object yet: nothing may be read through `self` but the attributes made locals
            self.attrs = {key: val for key, val in self.attrs.items() if not key.startswith("self")}
        for i, (cn, ty) in enumerate(self.params):
            name = [k for k, v in env.items() if not k.startswith("@") and v == (ty, cn)][0]
            if ty == "obj":
                env[name] = ("obj", self.objvar(cn))
            elif isinstance(ty, str) and ty.startswith("tup") and ty[3:].isdigit():
                ty2 = ("tup", ("int",) * int(ty[3:]))
                self.params[i] = (cn, ty2)
                env[name] = (ty2, cn)
        return env

    # ---- strategy modules, objects, text
    def modattr(self, node, m, tail):
        if tail == "version":
            return ("int", m)
        if tail == "width":
            return ("int", "(width %s)" % m)
        if tail == "max_int":
            return ("int", "(max_int_w (width %s))" % m)
        bad(node, "attribute %s of a strategy module" % tail)

    def objattr2(self, node, o, tail, env):
        ver, w, v, _ = o
        if tail == "_value":
            return ("int", v)
        if tail == "_module":
            return ("mod", ver)
        if tail.startswith("_module."):
            return self.modattr(node, ver, tail[8:])
        r = self.tr.modof("IPAddress").lookup("IPAddress", tail) if "." not in tail else None
        if r and r[2]:
            return self.generated(node, "IPAddress", tail, " ".join((ver, w, v)), [])
        bad(node, "attribute %s of an IPAddress" % tail)

    def rhs(self, node, env):
        if isinstance(node, ast.Name) and node.id not in env and node.id in ("_ipv4", "_ipv6"):
            if self.mod.imports.get(node.id) == "netaddr.strategy." + node.id[1:]:
                return ("mod", "src_%s_version" % node.id[1:])
        if isinstance(node, ast.Name) and node.id == OBJECT:
            bad(node, "use of the constructor result")
        if isinstance(node, ast.Name) and node.id not in env and node.id in CORE_FLAGS and self.mod.imports.get(node.id) == "netaddr.core." + node.id:
            return ("int", str(core_const(node.id, node)))
        if isinstance(node, ast.BinOp) and isinstance(node.op, ast.Mod) and isinstance(node.left, ast.Constant) and isinstance(node.left.value, str):
            return self.format_(node, env)
        if (isinstance(node, ast.Compare) and len(node.ops) == 1 and isinstance(node.ops[0], (ast.Eq, ast.NotEq))
                and isinstance(node.left, ast.Name) and tyname(env.get(node.left.id, ("",))[0]) == "optint"):
            b, h = self.int_(node.comparators[0], env), self.fresh()      # x == k for x : None or an int (None == k is False)
            r = "(match %s with Some %s => (%s =? %s) | None => false end)" % (env[node.left.id][1], h, h, b)
            return ("bool", r if isinstance(node.ops[0], ast.Eq) else "(negb %s)" % r)
        if isinstance(node, ast.Attribute):
            path = dotted(node)
            if path and path not in env and path not in self.attrs:
                head, _, tail = path.partition(".")
                if head in env and env[head][0] == "mod":
                    return self.modattr(node, env[head][1], tail)
                if head in env and env[head][0] == "obj":
                    return self.objattr2(node, env[head][1], tail, env)
                if head in env and env[head][0] == "net" and tail == "_module":
                    return ("mod", "(nver %s)" % env[head][1])
                parts = path.split(".")
                for i in range(len(parts) - 1, 1, -1):               # self._start.<attribute> of an IPRange receiver
                    pre = ".".join(parts[:i])
                    if pre in self.attrs and self.attrs[pre][0] == "obj":
                        return self.objattr2(node, self.attrs[pre][1], ".".join(parts[i:]), env)
        if (isinstance(node, ast.Compare) and len(node.ops) == 1 and isinstance(node.ops[0], (ast.In, ast.NotIn))
                and isinstance(node.left, ast.Constant) and isinstance(node.left.value, str) and len(node.left.value) == 1
                and 32 <= ord(node.left.value) < 127 and node.left.value != '"'):
            ty, t = self.ex(node.comparators[0], env)          # 'c' in s
            if ty != "str":
                bad(node, "`in` on %s" % pysrc.show(ty))
            r = "(contains_char \"%s\"%%char %s)" % (node.left.value, t)
            return ("bool", r if isinstance(node.ops[0], ast.In) else "(negb %s)" % r)
        return super().rhs(node, env)

    def bool_(self, node, env):
        if isinstance(node, ast.BinOp):                       # the truth value of an int expression (`if flags & NOHOST:`)
            snap, pre0 = self.snapshot(), list(self.pre)
            ty, t = self.ex(node, env)
            if ty == "int":
                return "(negb (%s =? 0))" % t
            self.restore(snap)
            self.pre = pre0
        return super().bool_(node, env)

    def format_(self, node, env):
        """'..%s..%d..' % (a, b): the pieces joined by String.append (right-nested); an int argument prints as str(int) = '%d'"""
        fmt = node.left.value
        args = node.right.elts if isinstance(node.right, ast.Tuple) else [node.right]
        pieces = fmt.replace("%s", "%d").split("%d")
        if "%" in "".join(pieces) or len(pieces) != len(args) + 1 or any(not all(32 <= ord(c) < 127 for c in x) for x in pieces):
            bad(node, "format string other than literal text with %s / %d")
        specs = [fmt[i + 1] for i in range(len(fmt) - 1) if fmt[i] == "%"]
        terms = []
        for i, a in enumerate(args):
            if pieces[i]:
                terms.append("\"%s\"%%string" % pieces[i].replace('"', '""'))
            ty, t = self.ex(a, env)
            if ty == "int":
                terms.append("(fmt_d %s)" % t)
            elif ty == "str" and specs[i] == "s":
                terms.append(t)
            else:
                bad(node, "%%%s of %s" % (specs[i], pysrc.show(ty)))
        if pieces[-1]:
            terms.append("\"%s\"%%string" % pieces[-1].replace('"', '""'))
        out = terms[-1]
        for t in reversed(terms[:-1]):
            out = "(String.append %s %s)" % (t, out)
        return ("str", out)

    def variant_call(self, node, name, env):
        """call of a module-level function that is translated in variants `name:variant` (by declared parameter types): keyword
        arguments and defaults are put in positional order, the variant is chosen by the types of the arguments"""
        g = self.mod.function(name)
        names = [a.arg for a in g.args.args]
        kw = {k.arg: k.value for k in node.keywords}
        if None in kw or len(kw) != len(node.keywords) or len(node.args) > len(names) or any(k not in names[len(node.args):] for k in kw):
            bad(node, "argument list of %s" % name)
        dflt = dict(zip(names[len(names) - len(g.args.defaults):], g.args.defaults))
        vals = []
        for i, x in enumerate(names):
            a = node.args[i] if i < len(node.args) else kw.get(x, dflt.get(x))
            if a is None:
                bad(node, "missing argument %s of %s" % (x, name))
            vals.append(self.ex(a, env))
        for k in self.visible_specs():
            if k[0] is None and k[1].partition(":")[0] == name and ":" in k[1]:
                want = [k[2].get(x, "int") for x in names]
                if all(tyname(v[0]) == w or (tyname(v[0]), w) in (("tup", "inttuple"),) for v, w in zip(vals, want)):
                    return self.generated(node, None, k[1], "", [(pysrc.parse_type(w), v[1][3] if v[0] == "obj" else v[1])
                                                                for v, w in zip(vals, want)])
        bad(node, "no variant of %s for arguments of types %s" % (name, ", ".join(pysrc.show(v[0]) for v in vals)))

    def visible_specs(self):
        out = list(self.tr.specs)
        for o in pysrc.UNIT_SEES.get(self.tr.out, ()):
            out += pysrc.BY_OUT[o].specs if o in pysrc.BY_OUT else []
        return out

    def call(self, node, env):
        f = node.func
        if isinstance(f, ast.Name) and f.id not in env and any(k[0] is None and k[1].startswith(f.id + ":") for k in self.visible_specs()):
            return self.variant_call(node, f.id, env)
        if isinstance(f, ast.Name) and f.id in getattr(self, "localfns", {}) and f.id not in env:
            if node.keywords or len(node.args) != 1:
                bad(node, "call of the inner function %s" % f.id)
            ty, t = self.ex(node.args[0], env)
            return self.generated(node, None, "%s.%s:%s" % (self.pyname, f.id, tyname(ty)), "", [(ty, t)])
        if self.builtin_call(node, "len", env, 1) and isinstance(node.args[0], ast.Name) and env.get(node.args[0].id, ("",))[0] == "inttuple":
            return ("int", "(Z.of_nat (List.length %s))" % env[node.args[0].id][1])
        if self.builtin_call(node, "int", env, 1):
            snap, pre0 = self.snapshot(), list(self.pre)
            ty, t = self.ex(node.args[0], env)
            if ty == "str":
                return ("out", "int", "(py_int_o 10 %s)" % t)          # int(s): ValueError for text that is no decimal literal
            if ty == "none":
                return ("out", "int", "(Raise TypeError)")            # int(None)
            self.restore(snap)
            self.pre = pre0
        if isinstance(f, ast.Attribute) and f.attr in ("split", "join") and not node.keywords and len(node.args) == 1:
            snap, pre0 = self.snapshot(), list(self.pre)
            (ta, a), (tb, b) = self.ex(f.value, env), self.ex(node.args[0], env)
            if f.attr == "split" and ta == "str" and tb == "str" and isinstance(node.args[0], ast.Constant) and len(node.args[0].value) == 1:
                return (("list", pysrc.Cell("str")), "(split \"%s\"%%char %s)" % (node.args[0].value, a))
            if f.attr == "join" and ta == "str" and pysrc.is_list(tb) and tb[1].find().t == "str":
                return ("str", "(join %s %s)" % (a, b))
            self.restore(snap)
            self.pre = pre0
        if isinstance(f, ast.Attribute) and f.attr in ("int_to_str", "expand_partial_address") and not node.keywords:
            m = ("mod", "ver") if dotted(f.value) == "self._module" and "self._module.version" in self.attrs else self.rhs(f.value, env)
            if m[0] == "mod" and f.attr == "int_to_str" and len(node.args) == 1:
                self.uses_be = True
                return ("out", "str", "(py_int_to_str be %s %s)" % (m[1], self.int_(node.args[0], env)))
            if m == ("mod", "src_ipv4_version") and f.attr == "expand_partial_address" and len(node.args) == 1:
                ty, t = self.ex(node.args[0], env)
                if ty != "str":
                    bad(node, "expand_partial_address of %s" % pysrc.show(ty))
                return ("out", "str", "(py_expand_partial_address %s)" % t)
            bad(node, "call of %s" % f.attr)
        if isinstance(f, ast.Attribute) and isinstance(f.value, ast.Name) and env.get(f.value.id, ("",))[0] == "obj" and not node.keywords and not node.args:
            r = self.tr.modof("IPAddress").lookup("IPAddress", f.attr)
            if r and not r[2]:
                o = env[f.value.id][1]
                return self.generated(node, "IPAddress", f.attr, " ".join(o[:3]), [])
        if isinstance(f, ast.Attribute) and f.attr in ("str_to_int",) and not node.keywords:
            snap, pre0 = self.snapshot(), list(self.pre)
            r = self.rhs(f.value, env)
            if r[0] == "mod":
                if len(node.args) != 2:
                    bad(node, "str_to_int with an argument list other than (addr, flags)")
                (ta, a), b = self.ex(node.args[0], env), self.int_(node.args[1], env)
                if ta != "str":
                    bad(node, "str_to_int of %s" % pysrc.show(ta))
                self.uses_be = True
                return ("out", "int", "(py_str_to_int be %s %s %s)" % (r[1], a, b))
            self.restore(snap)
            self.pre = pre0
        return super().call(node, env)

    def subscript(self, node, env):
        v = node.value
        if isinstance(v, ast.Attribute) and v.attr in DICTS:              # module.<table>[k]: KeyError for a missing key
            snap, pre0 = self.snapshot(), list(self.pre)
            m = self.rhs(v.value, env)
            if m[0] == "mod":
                return ("out", "int", "(py_%s %s %s)" % (v.attr, m[1], self.int_(node.slice, env)))
            self.restore(snap)
            self.pre = pre0
        if isinstance(v, ast.Name) and pysrc.is_list(env.get(v.id, ("",))[0]) and pysrc.const_int(node.slice) == 0:
            ty, t = env[v.id]                                            # l[0]: IndexError for an empty list
            e = ty[1].find().t
            if e is not None and pysrc.is_value(e):
                return ("out", e, "(py_list_head %s)" % t)
        return super().subscript(node, env)

    def what(self):
        if self.recv is None and self.name != self.pyname:
            return "%s, specialised to %s" % (self.pyname, ", ".join("%s : %s" % (cn, pysrc.show(ty)) for cn, ty in self.params))
        return super().what()

    def assign(self, s, env, go):
        tgt = s.targets[0] if isinstance(s, ast.Assign) and len(s.targets) == 1 else None
        if isinstance(tgt, ast.Tuple) and isinstance(s.value, ast.Tuple) and len(tgt.elts) == len(s.value.elts) and all(
                isinstance(x, ast.Name) for x in tgt.elts):
            # a, b = e1, e2 where no target is read by the values: one assignment after the other
            if any(isinstance(n, ast.Name) and n.id in [x.id for x in tgt.elts] for v in s.value.elts for n in ast.walk(v)):
                bad(s, "parallel assignment that reads its own targets")
            stmts = [ast.copy_location(ast.Assign(targets=[x], value=v), s) for x, v in zip(tgt.elts, s.value.elts)]
            return self.block(stmts, env, go, [])
        if (isinstance(tgt, ast.Tuple) and len(tgt.elts) == 2 and all(isinstance(x, ast.Name) for x in tgt.elts) and isinstance(s.value, ast.Call)
                and isinstance(s.value.func, ast.Attribute) and s.value.func.attr == "split" and len(s.value.args) == 2
                and not s.value.keywords and pysrc.const_int(s.value.args[1]) == 1 and isinstance(s.value.args[0], ast.Constant)
                and isinstance(s.value.args[0].value, str) and len(s.value.args[0].value) == 1):
            ty, t = self.ex(s.value.func.value, env)                     # a, b = s.split(c, 1): ValueError unless two parts
            if ty != "str":
                bad(s, "split() of %s" % pysrc.show(ty))
            pre = self.take_pre()
            names = []
            for x in tgt.elts:
                cn, env = self.bind_local(x, x.id, "str", env, s.value)
                names.append(cn)
            return self.wrap(pre, ("bind", "(%s, %s)" % tuple(names), "(py_split1_pair \"%s\"%%char %s)" % (s.value.args[0].value, t), go(env)))
        if (isinstance(tgt, ast.Tuple) and all(isinstance(x, ast.Name) for x in tgt.elts) and isinstance(s.value, ast.Name)
                and env.get(s.value.id, ("",))[0] == "inttuple"):
            t = env[s.value.id][1]                                       # a, b = <tuple of ints>: ValueError for another length
            names = []
            for x in tgt.elts:
                cn, env = self.bind_local(x, x.id, "int", env, s.value)
                names.append(cn)
            return ("listmatch", t, names, go(env), ("raise", "ValueError"))
        if (isinstance(tgt, ast.Attribute) and dotted(tgt) == "self." + tgt.attr and self.recv and not self.is_ctor
                and isinstance(s, ast.Assign) and "self." + tgt.attr not in pysrc.FIELD):
            # self.<property> = e: the property's setter `property(getter, _setter)` runs; it stores into self._<attribute>
            st = self.property_setter(tgt)
            if st is not None:
                if env["@mut"] or env["@break"] is not None:
                    bad(s, "second state assignment / state assignment inside a loop")
                ty, t = self.ex(s.value, env)
                if ty != "int":
                    bad(s, "property assignment of %s" % pysrc.show(ty))
                pre = self.take_pre()
                r = self.generated(s, self.recv, st[0], self.state(env), [("sarg", "(SInt %s)" % t)])
                if r[0] != "out" or r[1] != "int":
                    bad(s, "setter %s does not answer the stored value" % st[0])
                h, env = self.fresh(), dict(env)
                env["@mut"], env[st[1]] = (st[1], h), ("int", h)
                return self.wrap(pre, ("bind", h, r[2], go(env)))
        return super().assign(s, env, go)

    def property_setter(self, tgt):
        """for `self.a = e` with a class-level `a = property(<getter>, <_setter>, ..)`: (setter method name, the FIELD it assigns)"""
        c = self.mod.classes.get(self.recv)
        for st in (c.body if c else []):
            if (isinstance(st, ast.Assign) and len(st.targets) == 1 and isinstance(st.targets[0], ast.Name) and st.targets[0].id == tgt.attr
                    and isinstance(st.value, ast.Call) and dotted(st.value.func) == "property" and len(st.value.args) >= 2
                    and isinstance(st.value.args[1], ast.Name)):
                name = st.value.args[1].id
                r = self.mod.lookup(self.recv, name)
                fields = [dotted(n) for n in ast.walk(r[1]) if isinstance(n, ast.Attribute) and isinstance(n.ctx, ast.Store)] if r else []
                if r and not r[2] and len(fields) == 1 and fields[0] in pysrc.FIELD:
                    return name, fields[0]
        return None

    def generated(self, node, recv, name, state, args):
        r = super().generated(node, recv, name, state, args)
        d = self.depfns[-1]
        if getattr(d, "uses_be", False):
            self.uses_be = True
            r = r[:-1] + (r[-1].replace("(%s" % d.cname, "(%s be" % d.cname, 1),)
        return r

    def ctor(self, node, cls, env):
        if cls == "IPAddress":
            kw = {k.arg: k.value for k in node.keywords}
            if None in kw or len(kw) != len(node.keywords) or not set(kw) <= {"version", "flags"} or not 1 <= len(node.args) <= 3:
                bad(node, "unsupported IPAddress constructor call")
            if len(node.args) + len(kw) > 3 or (len(node.args) >= 2 and "version" in kw) or (len(node.args) == 3 and "flags" in kw):
                bad(node, "unsupported IPAddress constructor call")
            snap, pre0 = self.snapshot(), list(self.pre)
            ty, t = self.ex(node.args[0], env)
            version = node.args[1] if len(node.args) >= 2 else kw.get("version")
            flags = node.args[2] if len(node.args) == 3 else kw.get("flags")
            if not (ty == "int" and version is not None and flags is None):      # (that form is Fn's mk_addr)
                variant = {"int": "int", "str": "str", "obj": "copy"}.get(ty)
                if variant is None:
                    bad(node, "IPAddress() of %s" % pysrc.show(ty))
                vty, vt = self.ex(version, env) if version is not None else ("none", None)
                if vty not in ("none", "int", "optint"):
                    bad(node, "version=%s" % pysrc.show(vty))
                vt = "None" if vty == "none" else "(Some %s)" % vt if vty == "int" else vt
                ft = self.int_(flags, env) if flags is not None else "0"
                return self.generated(node, "IPAddress", "__init__:" + variant, "",
                                      [(ty, t[3] if ty == "obj" else t), ("optint", vt), ("int", ft)])
            self.restore(snap)
            self.pre = pre0
        return super().ctor(node, cls, env)

    # ---- tests decided by types
    def static_kind(self, t, env):
        while isinstance(t, ast.UnaryOp) and isinstance(t.op, ast.Not):
            t = t.operand
        if (isinstance(t, ast.Compare) and len(t.ops) == 1 and isinstance(t.ops[0], (ast.Is, ast.IsNot))
                and isinstance(t.comparators[0], ast.Constant) and t.comparators[0].value is None and isinstance(t.left, ast.Name)):
            return True
        return isinstance(t, ast.Call) and dotted(t.func) in ("_is_str", "isinstance", "hasattr") and dotted(t.func) not in env

    def static_test(self, s, t, env):
        """True / False: decided by the type of the tested name; ("opt", name, <true when a value>): a match; None: not mine"""
        neg = False
        while isinstance(t, ast.UnaryOp) and isinstance(t.op, ast.Not):
            t, neg = t.operand, not neg
        if not self.static_kind(t, env):
            return None
        if isinstance(t, ast.Compare):
            x = t.left.id
            if x not in env:
                bad(s, "test of %s, which is unknown (or possibly unbound)" % x)
            ty = tyname(env[x][0])
            isnone = isinstance(t.ops[0], ast.Is)
            if ty in OPTIONAL:
                return ("opt", x, isnone == neg)
            if ty == "none":
                return isnone != neg
            if ty in ("sarg", "operand", "optdialect", "optbool", "cls", "iter"):
                return None
            return (not isnone) != neg
        fname = dotted(t.func)
        if t.keywords or not t.args or not isinstance(t.args[0], ast.Name) or t.args[0].id not in env:
            return None
        ty = tyname(env[t.args[0].id][0])
        if fname == "_is_str" and len(t.args) == 1 and ty in HASATTR2_TYPES:
            if self.mod.imports.get("_is_str") != "netaddr.compat._is_str" or not pysrc.compat_lambda_isinstance("_is_str"):
                bad(s, "_is_str is not netaddr.compat's")
            return (ty == "str") != neg
        if fname == "isinstance" and len(t.args) == 2 and ty in INSTANCE and not self.mod.toplevel("isinstance"):
            c = dotted(t.args[1])
            if c not in CLASSES:
                bad(s, "isinstance against %s" % c)
            if c.startswith("_") and self.mod.imports.get(c) != "netaddr.compat." + c:
                bad(s, "%s is not netaddr.compat's" % c)
            if not c.startswith("_") and c != "tuple" and c not in self.mod.classes:
                bad(s, "%s is not a class of this module" % c)
            if c == "tuple" and self.mod.toplevel("tuple"):
                bad(s, "tuple is rebound")
            return (c in INSTANCE[ty]) != neg
        if (fname == "hasattr" and len(t.args) == 2 and isinstance(t.args[1], ast.Constant) and t.args[1].value in HASATTR2
                and ty in HASATTR2_TYPES and not self.mod.toplevel("hasattr")):
            return (ty in HASATTR2[t.args[1].value]) != neg
        return None

    def if_(self, s, rest, env, k, after):
        t = s.test
        if isinstance(t, ast.BoolOp) and any(self.static_kind(v, env) for v in t.values):
            first = t.values[0]
            tail = t.values[1] if len(t.values) == 2 else ast.copy_location(ast.BoolOp(op=t.op, values=t.values[1:]), t)
            inner = ast.copy_location(ast.If(test=tail, body=s.body, orelse=s.orelse), s)
            if isinstance(t.op, ast.And):
                s2 = ast.copy_location(ast.If(test=first, body=[inner], orelse=s.orelse), s)
            else:
                s2 = ast.copy_location(ast.If(test=first, body=s.body, orelse=[inner]), s)
            return self.if_(s2, rest, env, k, after)
        r = self.static_test(s, t, env)
        if r is True or r is False:
            return self.block((s.body if r else s.orelse) + rest, env, k, after)
        if r is not None:
            _, x, some_is_true = r
            ty, term = env[x]
            cn = self.coqname(s, x)
            senv, nenv = dict(env), dict(env)
            senv[x], nenv[x] = (OPTIONAL[ty], cn), ("none", None)
            a = self.block((s.body if some_is_true else s.orelse) + rest, senv, k, after)
            b = self.block((s.orelse if some_is_true else s.body) + rest, nenv, k, after)
            return ("optmatch", term, cn, a, b)
        if any(isinstance(n, ast.Assign) and isinstance(n.value, ast.Constant) and n.value.value is None
               for st in s.body + s.orelse for n in ast.walk(st)):
            # a branch binds a name to None: no join (None is a compile-time binding), the rest of the block follows in both branches
            c = self.bool_(s.test, env)
            pre = self.take_pre()
            return self.wrap(pre, ("if", c, self.block(s.body + rest, env, k, after), self.block(s.orelse + rest, env, k, after)))
        return super().if_(s, rest, env, k, after)

    # ---- statements
    def block(self, stmts, env, k, after):
        if stmts and isinstance(stmts[0], ast.FunctionDef):
            # an inner function that reads nothing of the enclosing one: translated on its own as `<outer>.<inner>:<variant>`
            # (Module.function checks that it is closure-free and bound once); here only its name is noted
            g = stmts[0]
            self.mod.function("%s.%s" % (self.pyname, g.name))
            if self.recv is not None or g.name in env:
                bad(g, "inner function in a method / shadowing a local")
            self.localfns = dict(getattr(self, "localfns", {}), **{g.name: g})
            return self.block(list(stmts[1:]), env, k, after)
        if stmts and isinstance(stmts[0], ast.Try):
            r = self.try_match(stmts[0], list(stmts[1:]), env, k, after)
            if r is not None:
                return r
        if (stmts and isinstance(stmts[0], ast.For) and isinstance(stmts[0].iter, ast.Tuple) and isinstance(stmts[0].target, ast.Name)
                and not stmts[0].orelse):
            return self.unroll(stmts[0], list(stmts[1:]), env, k, after)
        return super().block(stmts, env, k, after)

    def unroll(self, s, rest, env, k, after):
        """for x in (a, b): body -- one copy of the body per element"""
        x = s.target.id
        if any(isinstance(n, ast.Name) and n.id == x and not isinstance(n.ctx, ast.Load) for st in s.body for n in ast.walk(st)):
            bad(s, "loop variable assigned in the loop")

        def leave(e):
            e = dict(e)
            e["@break"], e["@continue"], e["@lret"] = env["@break"], env["@continue"], env["@lret"]
            return self.block(rest, e, k, after)

        def copy_(i, e):
            if i == len(s.iter.elts):
                return leave(e)
            e = dict(e)
            e["@break"], e["@continue"], e["@lret"] = env["@break"], env["@continue"], env["@lret"]
            ty, t = self.ex(s.iter.elts[i], e)
            pre = self.take_pre()
            if not pysrc.is_value(ty):
                bad(s, "loop over a tuple of %s" % pysrc.show(ty))
            cn, e = self.bind_local(s.target, x, ty, e, s.iter.elts[i])
            e["@break"], e["@continue"], e["@lret"] = leave, (lambda e2: copy_(i + 1, e2)), False
            if any(isinstance(n, ast.Return) for st in s.body for n in ast.walk(st)):
                bad(s, "return inside an unrolled loop")
            return self.wrap(pre, ("let", cn, t, self.block(s.body, e, lambda e2: copy_(i + 1, e2), rest + after)))
        return copy_(0, env)

    def pure(self, stmts, env):
        """can none of the statements raise (in the translator's reading)?"""
        snap = self.snapshot()
        try:
            ir = self.block(stmts, env, lambda e: ("jret", "tt"), [])
            return not self.effects(ir)
        except pysrc.Untranslatable:
            return False
        finally:
            self.restore(snap)

    def catches(self, h, evar):
        if h.type is None:
            return "(py_catch_all %s)" % evar
        names = [dotted(x) for x in h.type.elts] if isinstance(h.type, ast.Tuple) else [dotted(h.type)]
        for n in names:
            if n not in EXN or (self.mod.toplevel(n) and n not in self.mod.imports):
                bad(h, "except clause for %s" % n)
        cs = ["(exn_eqb %s %s)" % (evar, n) for n in names]
        return cs[0] if len(cs) == 1 else "(%s)" % " || ".join(cs)

    def try_match(self, s, rest, env, k, after):
        if len(s.handlers) == 1 and dotted(s.handlers[0].type) in ("StopIteration", "NameError"):
            return None                                                # Fn's forms
        if s.finalbody or not s.handlers:
            bad(s, "try with finally / without handlers")
        body = list(s.body)
        for i in range(len(body), 0, -1):                            # the longest prefix that cannot raise runs before the try
            if self.pure(body[:i], env) and not any(isinstance(n, (ast.Return, ast.Break, ast.Continue))
                                                    for st in body[:i] for n in ast.walk(st)):
                if i == len(body):
                    return self.block(body + s.orelse + rest, env, k, after)     # nothing can raise: the handlers are dead
                s2 = ast.copy_location(ast.Try(body=body[i:], handlers=s.handlers, orelse=s.orelse, finalbody=[]), s)
                return self.block(body[:i] + [s2] + rest, env, k, after)
        if env["@mut"]:
            bad(s, "try after a state assignment")
        if any(isinstance(n, (ast.Break, ast.Continue, ast.While, ast.For, ast.Try)) for st in body for n in ast.walk(st)):
            bad(s, "try body with break / continue / loop / nested try")
        has_ret = any(isinstance(n, ast.Return) for st in body for n in ast.walk(st))
        if has_ret and (env["@break"] is not None or s.orelse):
            bad(s, "try body with return inside a loop / with an else clause")
        for h in s.handlers:
            if h.name and any(isinstance(n, ast.Name) and n.id == h.name for st in h.body + rest + after for n in ast.walk(st)):
                bad(s, "use of the exception variable %s" % h.name)
        names, ends = pysrc.assigned_names(body), []
        last = body[-1]
        lastonly = set(pysrc.assigned_names([last])) - set(pysrc.assigned_names(body[:-1])) if isinstance(last, ast.Assign) else set()
        # in a handler: a name assigned only by the (plain) last statement of the body keeps its earlier binding
        henv = {key: val for key, val in env.items() if key.startswith("@") or key not in names or key in lastonly}

        def handler(h):
            snap = self.snapshot()
            try:
                return self.block(h.body + rest, henv, k, after)
            except pysrc.Untranslatable as e:
                if "possibly unbound" not in str(e):
                    raise
                self.restore(snap)
                return ("raise", "Unsupported")      # Python: UnboundLocalError on this path -- outside the model

        def end(e):
            ends.append(e)
            return ("jret", e)
        single = len(body) == 1 and isinstance(last, ast.Assign) and len(last.targets) == 1
        rets = False
        if single:                                                   # try: x = <call>: the call itself is matched
            r = self.rhs(last.value, env)
            pre = self.take_pre()
            if r[0] != "out":
                bad(s, "internal: a try body that cannot raise")
            m = re.fullmatch(r"\(Raise (\w+)\)", r[2])
            if m and not pre:                                        # the body always raises this exception: the handler is known
                for h in s.handlers:
                    hn = [] if h.type is None else [dotted(x) for x in h.type.elts] if isinstance(h.type, ast.Tuple) else [dotted(h.type)]
                    self.catches(h, "_")
                    if h.type is None or m.group(1) in hn:
                        return handler(h)
                return ("raise", m.group(1))
            scrut, oenv = (("ir", self.wrap(pre, ("ret", "@loop", r[2], True))) if pre else r[2]), dict(env)
            tgt = last.targets[0]
            if isinstance(tgt, ast.Name) and (r[1] == "obj" or pysrc.is_value(r[1])):
                cn, oenv = self.bind_local(tgt, tgt.id, r[1], oenv, last.value)
                if r[1] == "obj":
                    oenv[tgt.id] = ("obj", self.objvar(cn))
                pat = cn
            elif (isinstance(tgt, ast.Tuple) and isinstance(r[1], tuple) and r[1][0] == "tup" and len(r[1][1]) == len(tgt.elts)
                  and all(isinstance(x, ast.Name) for x in tgt.elts)):
                cns = []
                for x, xty in zip(tgt.elts, r[1][1]):
                    cn, oenv = self.bind_local(x, x.id, xty, oenv, last.value)
                    cns.append(cn)
                pat = "(%s)" % ", ".join(cns)
            else:
                bad(s, "assignment inside try")
        else:
            benv = dict(env)
            if has_ret and any(not isinstance(st, (ast.Return, ast.Raise)) for st in [last]):
                bad(s, "try body that returns on some paths only")      # (a body that always returns is matched on its value)
            bir = self.block(body, benv, end, s.orelse + rest + after)
            if has_ret and ends:
                bad(s, "try body that returns on some paths only")
            rets = has_ret
            exported = [x for x in names if ends and all(x in e and (pysrc.is_value(e[x][0]) or e[x][0] == "obj") for e in ends)]
            for key, val in env.items():
                if not key.startswith("@") and key not in exported and key not in names and any(e.get(key) != val for e in ends):
                    bad(s, "%s is rebound inside try to something that is no Coq value" % key)
            oenv, cns = dict(env), []
            for x in names:
                oenv.pop(x, None)
            for x in exported:
                for e in ends[1:]:
                    pysrc.unify(s, e[x][0], ends[0][x][0], "ends of the try body")
                cn = self.coqname(s, x)
                cns.append(cn)
                oenv[x] = ("obj", self.objvar(cn)) if ends[0][x][0] == "obj" else (ends[0][x][0], cn)

            def close(ir):
                if ir[0] == "jret" and isinstance(ir[1], dict):
                    return ("jret", pysrc.tuple_term([ir[1][x][1][3] if ir[1][x][0] == "obj" else ir[1][x][1] for x in exported]))
                return tuple(close(x) if isinstance(x, tuple) and x and isinstance(x[0], str) else
                             [(kd, ns, close(sub)) for kd, ns, sub in x] if isinstance(x, list) else x for x in ir)
            scrut, pat = ("ir", close(bir)), pysrc.pattern(cns)
        if rets:                                                     # every path of the body returns (or raises): Ok r => r
            pat = self.fresh()
            ok = ("ret", self.retkind_of(scrut[1]), pat, False)
        else:
            ok = self.block(s.orelse + rest, oenv, k, after)
        evar = self.fresh()
        arms = [(self.catches(h, evar), handler(h)) for h in s.handlers]
        return ("trymatch", scrut, pat, ok, evar, arms)

    def finish(self):
        rets = [l for l in self.leaves(self.ir) if l[0] == "ret" and l[1] != "@loop"]
        if not rets and not self.lrets and ":" in self.name:
            # a variant all of whose paths raise: its result type is that of a sibling variant translated before it
            for k in self.tr.specs:
                if k[0] == self.recv and k[1] != self.name and k[1].partition(":")[0] == self.pyname and (k[0], k[1]) in self.tr.done:
                    d = self.tr.done[(k[0], k[1])]
                    self.kind = self.retkind = d.retkind
                    self.optional, self.outcome, self.fresh = False, True, False
                    self.type = "outcome " + pysrc.coqty(self.kind, self.f)
                    return
        super().finish()

    def retkind_of(self, ir):
        kinds = [l[1] for l in self.leaves(ir) if l[0] == "ret"]
        if not kinds:
            bad(self.f, "try body that neither returns nor falls through")
        return kinds[0]

    def return_(self, s, env):
        if isinstance(s.value, ast.Name) and s.value.id == OBJECT and getattr(self, "is_ctor", False):
            if env["@break"] is not None:
                bad(s, "the constructor ends inside a loop")
            vals = {}
            for a in CTOR_STATE[self.recv]:
                if "self" + a not in env or tyname(env["self" + a][0]) in ("none",) + tuple(OPTIONAL):
                    bad(s, "the constructor may end with self.%s unset or None" % a)
                vals[a] = env["self" + a]
            want = {"_value": "int", "_module": "mod", "_prefixlen": "int", "_start": "obj", "_end": "obj"}
            for a, (ty, _) in vals.items():
                if ty != want[a]:
                    bad(s, "self.%s is %s" % (a, pysrc.show(ty)))
            m = vals["_module"][1]
            if self.recv == "IPNetwork":
                return self.leaf(env, "net", "{| nver := %s; nval := %s; nplen := %s |}" % (m, vals["_value"][1], vals["_prefixlen"][1]))
            if self.recv == "IPRange":
                return self.leaf(env, ("tup", ("int", "int", "int")), "(%s, %s, %s)" % (m, vals["_start"][1][2], vals["_end"][1][2]))
            return self.leaf(env, "obj", "(%s, %s)" % (m, vals["_value"][1]))
        return super().return_(s, env)

    # ---- IR
    @staticmethod
    def children(ir):
        if ir[0] == "optmatch":
            return [ir[3], ir[4]]
        if ir[0] == "listmatch":
            return [ir[3], ir[4]]
        if ir[0] == "trymatch":
            return ([ir[1][1]] if isinstance(ir[1], tuple) else []) + [ir[3]] + [a for _, a in ir[5]]
        return Fn.children(ir)

    def effects(self, ir):
        return ir[0] in ("trymatch", "listmatch") or super().effects(ir)

    def render(self, ir, ind, oc, optional=False):
        k = ir[0]
        if k not in ("optmatch", "trymatch", "listmatch"):
            return super().render(ir, ind, oc, optional)
        i2 = ind + "  "
        sub = lambda x, o=oc: self.render(x, i2, o, optional) if x[0] in ("ret", "raise", "jret", "lret") else "(" + self.render(x, i2 + " ", o, optional) + ")"
        if k == "listmatch":
            return "match %s with\n%s| [%s] =>\n%s%s\n%s| _ =>\n%s%s\n%send" % (ir[1], ind, "; ".join(ir[2]), i2, sub(ir[3]), ind, i2, sub(ir[4]), ind)
        if k == "optmatch":
            return "match %s with\n%s| Some %s =>\n%s%s\n%s| None =>\n%s%s\n%send" % (ir[1], ind, ir[2], i2, sub(ir[3]), ind, i2, sub(ir[4]), ind)
        _, scrut, pat, ok, evar, arms = ir
        if not oc:
            raise AssertionError("trymatch outside outcome")
        st = "(%s)" % self.render(scrut[1], ind + "       ", True, False) if isinstance(scrut, tuple) else scrut
        hs, i3 = "", i2 + "  "
        for c, a in arms:
            ht = self.render(a, i3, oc, optional) if a[0] in ("ret", "raise", "jret", "lret") else "(" + self.render(a, i3 + " ", oc, optional) + ")"
            hs += "if %s then\n%s%s\n%selse " % (c, i3, ht, i2)
        return "match %s with\n%s| Ok %s =>\n%s%s\n%s| Raise %s =>\n%s%sRaise %s\n%send" % (
            st, ind, pat, i2, sub(ok), ind, evar, i2, hs, evar, ind)

    def text(self):
        t = super().text()
        for cls, g in getattr(self, "inlined", []):      # (the header format tools/srccover.py reads)
            t = "(* %s: %s.%s, inlined through super() into the definition below, lines %d-%d *)\n" % (
                self.mod.fn, cls, g.name, g.lineno, g.end_lineno) + t
        if self.is_ctor and pysrc.STATE[self.recv]:
            t = t.replace("\nDefinition %s (%s : Z) " % (self.cname, " ".join(pysrc.STATE[self.recv])), "\nDefinition %s " % self.cname, 1)
        if self.uses_be:
            t = t.replace("\nDefinition %s " % self.cname, "\nDefinition %s (be : backend) " % self.cname, 1)
            if self.loops:
                bad(self.f, "loop in a function that depends on the socket back-end")
        return t
