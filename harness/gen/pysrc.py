"""Source translator (DESIGN 5.1b): regenerates Gallina definitions from the CURRENT text of netaddr/ip/__init__.py
(and the three constants width/version/max_int of netaddr/strategy/ipv4.py, ipv6.py) on every run -> coq/Gen/pysrc_gen.v.
coq/Proofs/GenOk_Src.v proves every generated definition equal to the hand-written model function of coq/Model/*.v, so a
source edit that changes a translated method changes the generated term and the equality stops compiling.

Pure `ast` on the file text (netaddr is never imported), deterministic, ASCII output, FAIL CLOSED: any node outside the
subset below raises Untranslatable("<file>:<line>: <why>").  A method that cannot be translated (or that depends on one)
is emitted as a constant whose one-constructor type is named after that message, so exactly the lemmas (and the `Cxx_source_tie`
obligations) that mention it stop compiling, with the message in the Coq error; a missing/unparsable source file raises out of generate().

Subset.  Statements: docstring, pass, `x = e`, `x op= e`, `self._value = e` / `self._prefixlen = e` (recorded as the new
state), if/elif/else, `if not isinstance(x, _int_type): ...` on a parameter declared `sarg` (becomes `match x with SInt x`),
return, raise Name(...) (message ignored).  Expressions: int literals, + - * // % & | ^ << >> **, unary -, not/and/or,
(chained) comparisons on ints, int(e), bool(e), tuples of ints (-> list Z), None, the fixed attribute environment ATTRS,
reads of translated properties / calls of translated methods of the same object, and the constructor calls
IPAddress(e, ver) / self.__class__(e, ver) / klass(e, ver) -> (mk_addr ver e), IPNetwork((e1, e2), version=ver) -> (mk_net ver e1 e2)
(Model/SrcPrelude.v).  Conventions (DESIGN 3): Python ints are Z; a shift count that depends on a method parameter gets
CPython's `ValueError: negative shift count` guard, a count built from object state and literals only is taken as
non-negative (class invariant 0 <= prefixlen <= width); method parameters are ints unless declared otherwise in WHITELIST.
"""
import ast
import os
import re

REPO = os.environ.get("NV_REPO", "/repo")
IPFILE = "netaddr/ip/__init__.py"
STRATEGY = (("ipv4", "netaddr/strategy/ipv4.py"), ("ipv6", "netaddr/strategy/ipv6.py"))

# receiver class -> parameters standing for the object state (version, width, _value[, _prefixlen] / _start, _end values)
STATE = {"BaseIP": ("ver", "w", "v"), "IPAddress": ("ver", "w", "v"), "IPNetwork": ("ver", "w", "v", "p"),
         "IPRange": ("ver", "w", "s", "e")}
FIELD = {"self._value": "v", "self._prefixlen": "p"}      # assignable state attributes -> their state parameter

# (receiver class, method, {parameter: type}); the method is looked up through the receiver's bases
WHITELIST = [(c, m, {}) for c, ms in (
    ("IPNetwork", "_hostmask_int _netmask_int first last size network broadcast netmask hostmask ip cidr key sort_key "
                  "__iadd__ __isub__ version"),
    ("BaseIP", "is_ipv4_mapped is_ipv4_compat version"),
    ("IPAddress", "key sort_key is_hostmask is_netmask __int__ __index__ __nonzero__ __iadd__ __isub__ __add__ __sub__ "
                  "__rsub__ __or__ __and__ __xor__ __lshift__ __rshift__ ipv4 version"),
    ("IPRange", "first last key size version")) for m in ms.split()] + [
    ("BaseIP", "_set_value", {"value": "sarg"}), ("IPNetwork", "_set_prefixlen", {"value": "sarg"}),
    ("IPAddress", "ipv6", {"ipv4_compatible": "bool"}), ("IPNetwork", "ipv6", {"ipv4_compatible": "bool"})]
# documented skip list: (receiver, method) -> reason.  Nothing of the requested whitelist is skipped.
SKIP = {("IPRange", "sort_key"): "calls core.num_bits (int.bit_length): outside the integer-expression subset",
        ("IPNetwork", "netmask.setter"): "string/IPAddress argument through the IPAddress() parser and the netmask_bits loop",
        ("IPAddress", "__radd__"): "class-level alias `__radd__ = __add__`, not a function definition (covered by __add__)",
        ("IPAddress", "__bool__"): "class-level alias `__bool__ = __nonzero__` (covered by __nonzero__)"}

EXN = ("AddrFormatError", "AddrConversionError", "ValueError", "TypeError", "IndexError", "KeyError", "StructError",
       "NotRegisteredError", "AttributeError", "OverflowError")
RESERVED = set("ver w v p s e in let if then else match with end fun forall exists as return at do fix cofix for using "
               "where Type Prop Set Ok Raise Some None true false fst snd negb omap bind width max_int_w mk_addr mk_net "
               "SInt Z bool list option outcome net sarg nil cons".split())
ARITH = {ast.Add: "(%s + %s)", ast.Sub: "(%s - %s)", ast.Mult: "(%s * %s)", ast.BitAnd: "(Z.land %s %s)",
         ast.BitOr: "(Z.lor %s %s)", ast.BitXor: "(Z.lxor %s %s)", ast.LShift: "(Z.shiftl %s %s)",
         ast.RShift: "(Z.shiftr %s %s)", ast.FloorDiv: "(%s / %s)", ast.Mod: "(%s mod %s)", ast.Pow: "(%s ^ %s)"}
CMP = {ast.Lt: "(%s <? %s)", ast.LtE: "(%s <=? %s)", ast.Gt: "(%s >? %s)", ast.GtE: "(%s >=? %s)", ast.Eq: "(%s =? %s)",
       ast.NotEq: "(negb (%s =? %s))"}
COQTY = {"int": "Z", "bool": "bool", "tuple": "(list Z)", "obj": "(Z * Z)", "net": "net", "self": "Z", "sarg": "sarg"}


class Untranslatable(Exception):
    pass


def bad(node, why, fn=IPFILE):
    raise Untranslatable("%s:%s: %s" % (fn, getattr(node, "lineno", "?"), why))


def mangle(recv, name):
    return "src_%s_%s" % (recv, name.strip("_"))


def dotted(node):
    parts = []
    while isinstance(node, ast.Attribute):
        parts.append(node.attr)
        node = node.value
    return ".".join([node.id] + parts[::-1]) if isinstance(node, ast.Name) else None


def literal(node, text):
    seg = ast.get_source_segment(text, node) or ""
    s = ("0x%x" if seg[:2].lower() == "0x" else "%d") % node.value
    return s if node.value >= 0 else "(%s)" % s


class Module:
    """One parsed source file: classes, their bases and function definitions."""

    def __init__(self, fn):
        self.fn, self.text = fn, open(os.path.join(REPO, fn), encoding="utf-8").read()
        self.tree = ast.parse(self.text)
        self.classes = {c.name: c for c in self.tree.body if isinstance(c, ast.ClassDef)}
        self.imports = {(a.asname or a.name): "%s.%s" % (n.module, a.name) for n in self.tree.body
                        if isinstance(n, ast.ImportFrom) for a in n.names}

    def lookup(self, cls, name):
        """(defining class, FunctionDef, is_property) of attribute `name` of class `cls` (depth-first through the bases)."""
        c = self.classes.get(cls)
        if c is None:
            return None
        fs = [f for f in c.body if isinstance(f, ast.FunctionDef) and f.name == name
              and not any(isinstance(d, ast.Attribute) and d.attr in ("setter", "deleter") for d in f.decorator_list)]
        # any other binding of the name in the class body (alias assignment, definition under if/try, ...) is not understood
        other = [n for st in c.body if st not in fs and not (isinstance(st, ast.FunctionDef) and st.name == name)
                 for n in ([st] if isinstance(st, ast.FunctionDef) else ast.walk(st))
                 if (isinstance(n, ast.Name) and n.id == name and isinstance(n.ctx, ast.Store))
                 or (isinstance(n, (ast.FunctionDef, ast.ClassDef)) and n.name == name and n is not st)]
        if len(fs) > 1 or other:
            bad((fs[1:] + other)[0], "%s.%s is bound more than once or not by a plain def" % (cls, name))
        if fs:
            decs = [dotted(d) for d in fs[0].decorator_list]
            if decs not in ([], ["property"]):
                bad(fs[0], "unsupported decorator on %s.%s" % (cls, name))
            return cls, fs[0], decs == ["property"]
        for b in c.bases:
            r = self.lookup(dotted(b), name)
            if r:
                return r
        return None


class Fn:
    """Translation of one method for one receiver class."""

    def __init__(self, tr, recv, name, ptypes):
        self.tr, self.recv, self.name, self.mod = tr, recv, name, tr.mod
        r = self.mod.lookup(recv, name)
        if r is None:
            bad(None, "%s.%s not found" % (recv, name))
        self.owner, self.f, self.is_prop = r
        a = self.f.args
        if a.vararg or a.kwarg or a.kwonlyargs or a.posonlyargs or not a.args or a.args[0].arg != "self":
            bad(self.f, "unsupported signature")
        if any(not isinstance(d, ast.Constant) for d in a.defaults):
            bad(self.f, "non-constant default argument")
        self.attrs = {"self._module.version": ("int", "ver"),
                      "self._module.width": ("int", "w"), "self._module.max_int": ("int", "(max_int_w w)")}
        for m, _ in STRATEGY:
            if self.mod.imports.get("_" + m) == "netaddr.strategy." + m:
                for c in ("width", "version", "max_int"):
                    self.attrs["_%s.%s" % (m, c)] = ("int", "src_%s_%s" % (m, c))
        if recv == "IPRange":
            self.attrs.update({"self._start": ("obj", ("ver", "w", "s", "(ver, s)")), "self._end": ("obj", ("ver", "w", "e", "(ver, e)")),
                               "self._start._value": ("int", "s"), "self._end._value": ("int", "e")})
        else:
            self.attrs["self._value"] = ("int", "v")
        if recv == "IPNetwork":
            self.attrs["self._prefixlen"] = ("int", "p")
        self.used, self.pre, self.nohoist, self.nfresh, self.size = {}, [], 0, 0, 0
        env = {"@taint": frozenset(), "@mut": None}
        self.params = []
        for x in a.args[1:]:
            ty = ptypes.get(x.arg, "int")
            cn = self.coqname(x, x.arg)
            env[x.arg] = (ty, cn)
            env["@taint"] |= {x.arg}
            self.params.append((cn, COQTY[ty]))
        body = self.f.body
        if body and isinstance(body[0], ast.Expr) and isinstance(body[0].value, ast.Constant) and isinstance(body[0].value.value, str):
            body = body[1:]
        self.ir = self.block(body, env)
        self.finish()

    # ---- names
    def coqname(self, node, name):
        cn = name + "_" if (name in RESERVED or re.fullmatch(r"h\d+", name) or name.startswith("src_")) else name
        if not re.fullmatch(r"[A-Za-z_][A-Za-z0-9_]*", cn):
            bad(node, "non-ASCII identifier")
        if self.used.setdefault(cn, name) != name:
            bad(node, "identifier clash on %s" % cn)
        return cn

    def fresh(self):
        self.nfresh += 1
        return "h%d" % self.nfresh

    @staticmethod
    def objvar(x):
        """an IPAddress object held in variable x : Z * Z -> (version, width, value, the pair itself)"""
        return ("(fst %s)" % x, "(width (fst %s))" % x, "(snd %s)" % x, x)

    def hoist(self, node, item):
        if self.nohoist:
            bad(node, "sub-expression that can raise under and/or/conditional expression")
        self.pre.append(item)

    def take_pre(self):
        pre, self.pre = self.pre, []
        return pre

    @staticmethod
    def wrap(pre, ir):
        for it in reversed(pre):
            ir = ("if", it[1], ("raise", it[2]), ir) if it[0] == "guard" else ("bind", it[1], it[2], ir)
        return ir

    def state(self, env):
        """the receiver's state parameters as they are now (after `self._value = e` the new value is passed on)"""
        inv = {v: k for k, v in FIELD.items()}
        return " ".join(env[inv[x]][1] if inv.get(x) in env else x for x in STATE[self.recv])

    def tainted(self, node, env):
        return any(isinstance(n, ast.Name) and n.id in env["@taint"] for n in ast.walk(node))

    # ---- calls of other translated definitions and constructors
    def generated(self, node, recv, name, state, args):
        d = self.tr.get(recv, name, node)
        if len(args) != len(d.params) or any(t != COQTY["int"] for _, t in d.params):
            bad(node, "unsupported argument list for %s.%s" % (recv, name))
        term = "(%s)" % " ".join([mangle(recv, name), state] + args)
        if d.optional:
            bad(node, "use of %s.%s, which may return None" % (recv, name))
        return ("out", d.kind, term) if d.outcome else (d.kind, term)

    def ctor(self, node, cls, env):
        kw = {k.arg: k.value for k in node.keywords}
        if None in kw or len(kw) != len(node.keywords):
            bad(node, "unsupported keyword arguments")
        if cls == "IPAddress":
            args = list(node.args) + ([kw.pop("version")] if "version" in kw and len(node.args) == 1 else [])
            if kw or len(args) != 2:
                bad(node, "IPAddress constructor form other than (int, version)")
            val, ver = self.int_(args[0], env), self.int_(args[1], env)
            return ("out", "obj", "(mk_addr %s %s)" % (ver, val))
        if cls == "IPNetwork":
            if set(kw) != {"version"} or len(node.args) != 1 or not isinstance(node.args[0], ast.Tuple) or len(node.args[0].elts) != 2:
                bad(node, "IPNetwork constructor form other than ((int, int), version=...)")
            a, b = [self.int_(x, env) for x in node.args[0].elts]
            return ("out", "net", "(mk_net %s %s %s)" % (self.int_(kw["version"], env), a, b))
        bad(node, "constructor of %s" % cls)

    def int_(self, node, env):
        ty, t = self.ex(node, env)
        if ty != "int":
            bad(node, "int expression expected, got %s" % ty)
        return t

    def bool_(self, node, env):
        ty, t = self.ex(node, env)
        if ty != "bool":
            bad(node, "bool expression expected, got %s" % ty)
        return t

    # ---- expressions: -> (type, term); rhs() may also return ("out", kind, term) for a call that can raise
    def ex(self, node, env):
        r = self.rhs(node, env)
        if r[0] != "out":
            return r
        if r[1] not in ("obj", "int", "bool"):
            bad(node, "%s result used inside an expression" % r[1])
        h = self.fresh()
        self.hoist(node, ("bind", h, r[2]))
        return ("obj", self.objvar(h)) if r[1] == "obj" else (r[1], h)

    def rhs(self, node, env):
        self.size += 1
        if self.size > 4000:
            bad(node, "translation too large")
        if isinstance(node, ast.Constant):
            if node.value is None:
                return ("none", None)
            if isinstance(node.value, bool):
                return ("bool", "true" if node.value else "false")
            if isinstance(node.value, int):
                return ("int", literal(node, self.mod.text))
            bad(node, "constant %r" % type(node.value).__name__)
        if isinstance(node, ast.Name):
            if node.id in env:
                if env[node.id][0] == "sarg":
                    bad(node, "use of %s before its isinstance(_, _int_type) guard" % node.id)
                return env[node.id]
            if node.id in ("IPAddress", "IPNetwork") and node.id in self.mod.classes:
                return ("cls", node.id)
            bad(node, "unknown name %s" % node.id)
        if isinstance(node, ast.Attribute):
            path = dotted(node)
            if path in env:
                return env[path]
            if path in self.attrs:
                return self.attrs[path]
            if path == "self.__class__":
                return ("cls", self.recv)
            if path and path.startswith("self.") and path.count(".") == 1:
                r = self.mod.lookup(self.recv, node.attr)
                if r and r[2]:
                    return self.generated(node, self.recv, node.attr, self.state(env), [])
            bad(node, "attribute %s" % (path or "of a computed object"))
        if isinstance(node, ast.UnaryOp):
            if isinstance(node.op, ast.USub):
                return ("int", "(- %s)" % self.int_(node.operand, env))
            if isinstance(node.op, ast.Not):
                return ("bool", "(negb %s)" % self.bool_(node.operand, env))
            bad(node, "unary operator %s" % type(node.op).__name__)
        if isinstance(node, ast.BinOp):
            if type(node.op) not in ARITH:
                bad(node, "operator %s" % type(node.op).__name__)
            a, b = self.int_(node.left, env), self.int_(node.right, env)
            nonneg_lit = isinstance(node.right, ast.Constant) and isinstance(node.right.value, int) and node.right.value >= 0
            if isinstance(node.op, (ast.LShift, ast.RShift)) and not nonneg_lit and self.tainted(node.right, env):
                self.hoist(node, ("guard", "(%s <? 0)" % b, "ValueError"))      # CPython: negative shift count
            if isinstance(node.op, ast.Pow) and not nonneg_lit and self.tainted(node.right, env):
                bad(node, "** with an exponent that depends on a parameter (float for a negative exponent)")
            if isinstance(node.op, (ast.FloorDiv, ast.Mod)) and not (isinstance(node.right, ast.Constant) and node.right.value != 0):
                bad(node, "// or % by a non-literal (ZeroDivisionError not modelled)")
            return ("int", ARITH[type(node.op)] % (a, b))
        if isinstance(node, ast.BoolOp):
            first = self.bool_(node.values[0], env)
            self.nohoist += 1
            rest = [self.bool_(x, env) for x in node.values[1:]]
            self.nohoist -= 1
            return ("bool", "(%s)" % (" && " if isinstance(node.op, ast.And) else " || ").join([first] + rest))
        if isinstance(node, ast.Compare):
            xs = [self.int_(x, env) for x in [node.left] + node.comparators[:1]]
            self.nohoist += 1                                   # a <= b <= c evaluates c only if a <= b
            xs += [self.int_(x, env) for x in node.comparators[1:]]
            self.nohoist -= 1
            if any(type(o) not in CMP for o in node.ops):
                bad(node, "comparison operator")
            cs = [CMP[type(o)] % (xs[i], xs[i + 1]) for i, o in enumerate(node.ops)]
            return ("bool", cs[0] if len(cs) == 1 else "(%s)" % " && ".join(cs))
        if isinstance(node, ast.IfExp):
            c = self.bool_(node.test, env)
            self.nohoist += 1
            (ta, a), (tb, b) = self.ex(node.body, env), self.ex(node.orelse, env)
            self.nohoist -= 1
            if ta != tb or ta not in ("int", "bool"):
                bad(node, "conditional expression of types %s/%s" % (ta, tb))
            return (ta, "(if %s then %s else %s)" % (c, a, b))
        if isinstance(node, ast.Call):
            f = node.func
            if isinstance(f, ast.Name) and f.id in ("int", "bool") and f.id not in env:
                if len(node.args) != 1 or node.keywords:
                    bad(node, "%s() with other than one argument" % f.id)
                ty, t = self.ex(node.args[0], env)
                if f.id == "int" and ty == "int":
                    return ("int", t)
                if f.id == "int" and ty == "obj":                       # int(IPAddress object) = its __int__()
                    return self.generated(node, "IPAddress", "__int__", " ".join(t[:3]), [])
                if f.id == "bool" and ty in ("int", "bool"):
                    return ("bool", "(negb (%s =? 0))" % t if ty == "int" else t)
                bad(node, "%s() of %s" % (f.id, ty))
            if isinstance(f, ast.Attribute) and dotted(f) == "self." + f.attr and f.attr != "__class__":
                r = self.mod.lookup(self.recv, f.attr)
                if not r or r[2] or node.keywords:
                    bad(node, "call of self.%s" % f.attr)
                return self.generated(node, self.recv, f.attr, self.state(env), [self.int_(x, env) for x in node.args])
            ty, cls = self.ex(f, env) if not isinstance(f, ast.Call) else (None, None)
            if ty != "cls":
                bad(node, "call of %s" % (dotted(f) or "a computed function"))
            return self.ctor(node, cls, env)
        bad(node, "expression %s" % type(node).__name__)

    # ---- statements -> IR: let/bind/if/match/ret/raise
    def leaf(self, env, kind, term, wrapped=False):
        if kind == "none" and env["@mut"]:
            kind, term = "self", env["@mut"][1]
        return ("ret", kind, term, wrapped)

    def block(self, stmts, env):
        if not stmts:
            return self.leaf(env, "none", None)
        s, rest = stmts[0], list(stmts[1:])
        if isinstance(s, ast.Pass):
            return self.block(rest, env)
        if isinstance(s, (ast.Assign, ast.AugAssign)):
            tgts = s.targets if isinstance(s, ast.Assign) else [s.target]
            if len(tgts) != 1:
                bad(s, "multiple assignment")
            value = s.value if isinstance(s, ast.Assign) else ast.copy_location(ast.BinOp(tgts[0], s.op, s.value), s)
            r = self.rhs(value, env)
            pre, env = self.take_pre(), dict(env)
            path = dotted(tgts[0])
            if isinstance(tgts[0], ast.Name):
                if tgts[0].id in ("self", "_ipv4", "_ipv6"):
                    bad(s, "rebinding of %s" % tgts[0].id)
                x, cn = tgts[0].id, self.coqname(tgts[0], tgts[0].id)
                env["@taint"] = env["@taint"] | {x} if self.tainted(value, env) else env["@taint"] - {x}
                if r[0] == "out" and r[1] in ("obj", "net", "int", "bool"):
                    env[x] = ("obj", self.objvar(cn)) if r[1] == "obj" else (r[1], cn)
                    return self.wrap(pre, ("bind", cn, r[2], self.block(rest, env)))
                if r[0] in ("int", "bool"):
                    env[x] = (r[0], cn)
                    return self.wrap(pre, ("let", cn, r[1], self.block(rest, env)))
                if r[0] in ("none", "cls"):
                    env[x] = r
                    return self.wrap(pre, self.block(rest, env))
                bad(s, "assignment of a %s value" % (r[1] if r[0] == "out" else r[0]))
            if path in FIELD and path in self.attrs and r[0] == "int":
                if env["@mut"] and env["@mut"][0] != path:
                    bad(s, "assignment to a second attribute of self")
                env["@mut"], env[path] = (path, r[1]), ("int", r[1])
                return self.wrap(pre, self.block(rest, env))
            bad(s, "assignment target")
        if isinstance(s, ast.If):
            t, neg = s.test, False
            if isinstance(t, ast.UnaryOp) and isinstance(t.op, ast.Not):
                t, neg = t.operand, True
            if isinstance(t, ast.Call) and dotted(t.func) == "isinstance":
                if (len(t.args) != 2 or t.keywords or not isinstance(t.args[0], ast.Name) or dotted(t.args[1]) != "_int_type"
                        or env.get(t.args[0].id, ("",))[0] != "sarg" or self.mod.imports.get("_int_type") != "netaddr.compat._int_type"):
                    bad(s, "isinstance test other than isinstance(<sarg parameter>, _int_type)")
                x = t.args[0].id
                ienv = dict(env)
                ienv[x] = ("int", env[x][1])
                yes, no = (s.orelse, s.body) if neg else (s.body, s.orelse)
                return ("match", env[x][1], self.block(yes + rest, ienv), self.block(no + rest, env))
            c = self.bool_(s.test, env)
            pre = self.take_pre()
            return self.wrap(pre, ("if", c, self.block(s.body + rest, env), self.block(s.orelse + rest, env)))
        if isinstance(s, ast.Return):
            if s.value is None:
                return self.leaf(env, "none", None)
            if isinstance(s.value, ast.Name) and s.value.id == "self" and "self" not in env:
                if not env["@mut"]:
                    bad(s, "return self without a state assignment")
                return self.leaf(env, "self", env["@mut"][1])
            if isinstance(s.value, ast.Tuple):
                ir = self.leaf(env, "tuple", "[%s]" % "; ".join(self.int_(x, env) for x in s.value.elts))
                return self.wrap(self.take_pre(), ir)
            r = self.rhs(s.value, env)
            if env["@mut"] and r[0] != "none":
                bad(s, "value returned after a state assignment")
            if r[0] == "out":
                ir = self.leaf(env, r[1], r[2], True)
            elif r[0] == "obj":
                ir = self.leaf(env, "obj", r[1][3])
            elif r[0] in ("int", "bool", "none", "net"):
                ir = self.leaf(env, r[0], r[1])
            else:
                bad(s, "return of a %s value" % r[0])
            return self.wrap(self.take_pre(), ir)
        if isinstance(s, ast.Raise):
            e = s.exc.func if isinstance(s.exc, ast.Call) else s.exc
            if s.cause or not isinstance(e, ast.Name) or e.id not in EXN:
                bad(s, "raise of something other than a known exception class")
            if env["@mut"]:
                bad(s, "raise after a state assignment (the object would be left modified)")
            return ("raise", e.id)
        bad(s, "statement %s" % type(s).__name__)

    # ---- result type and text
    def leaves(self, ir):
        if ir[0] in ("ret", "raise"):
            return [ir]
        return [x for sub in ir[2:] if isinstance(sub, tuple) for x in self.leaves(sub)]

    def has(self, ir, tag):
        return ir[0] == tag or any(isinstance(sub, tuple) and self.has(sub, tag) for sub in ir[2:])

    def finish(self):
        rets = [l for l in self.leaves(self.ir) if l[0] == "ret"]
        kinds = sorted({l[1] for l in rets} - {"none"})
        if len(kinds) != 1:
            bad(self.f, "return values of kinds %s" % ([l[1] for l in rets] or "none"))
        self.kind = kinds[0]
        self.optional = any(l[1] == "none" for l in rets)
        self.outcome = (self.kind in ("obj", "net", "self") or self.has(self.ir, "raise") or self.has(self.ir, "bind")
                        or any(l[3] for l in rets))
        base = "(option %s)" % COQTY[self.kind] if self.optional else COQTY[self.kind]
        self.type = "outcome " + base if self.outcome else re.sub(r"^\((.*)\)$", r"\1", base)
        self.kind = "int" if self.kind == "self" else self.kind

    def render(self, ir, ind):
        k = ir[0]
        if k == "ret":
            _, kind, term, wrapped = ir
            if wrapped:
                return "omap Some %s" % term if self.optional else term
            t = "None" if kind == "none" else ("(Some %s)" % term if self.optional else term)
            return "Ok %s" % t if self.outcome else t
        if k == "raise":
            return "Raise %s" % ir[1]
        i2 = ind + "  "
        sub = lambda x: self.render(x, i2) if x[0] in ("ret", "raise") else "(" + self.render(x, i2 + " ") + ")"
        if k == "let":
            return "let %s := %s in\n%s%s" % (ir[1], ir[2], ind, self.render(ir[3], ind))
        if k == "bind":
            return "do %s <- %s;\n%s%s" % (ir[1], ir[2], ind, self.render(ir[3], ind))
        if k == "if":
            return "if %s then\n%s%s\n%selse\n%s%s" % (ir[1], i2, sub(ir[2]), ind, i2, sub(ir[3]))
        if k == "match":
            return "match %s with\n%s| SInt %s =>\n%s%s\n%s| _ =>\n%s%s\n%send" % (
                ir[1], ind, ir[1], i2, sub(ir[2]), ind, i2, sub(ir[3]), ind)
        raise AssertionError(k)

    def text(self):
        first = min([self.f.lineno] + [d.lineno for d in self.f.decorator_list])
        what = "%s.%s%s" % (self.owner, self.name, " (property)" if self.is_prop else "")
        if self.owner != self.recv:
            what += ", receiver class %s" % self.recv
        ps = "(%s : Z)" % " ".join(STATE[self.recv]) + "".join(" (%s : %s)" % p for p in self.params)
        return "(* %s: %s, lines %d-%d *)\nDefinition %s %s : %s :=\n  %s.\n" % (
            self.mod.fn, what, first, self.f.end_lineno, mangle(self.recv, self.name), ps, self.type, self.render(self.ir, "  "))


class Translator:
    def __init__(self):
        self.mod = Module(IPFILE)
        self.done, self.order, self.failed, self.active = {}, [], {}, []

    def get(self, recv, name, node=None):
        key = (recv, name)
        if key in self.failed:
            bad(node, "depends on untranslatable %s.%s" % key)
        if key in self.active:
            bad(node, "recursive use of %s.%s" % key)
        if key not in self.done:
            spec = [w for w in WHITELIST if w[:2] == key]
            if not spec:
                bad(node, "use of %s.%s, which is not in the translator's whitelist" % key)
            self.active.append(key)
            try:
                d = Fn(self, recv, name, spec[0][2])
            except Untranslatable as e:
                self.failed[key] = str(e)
                raise
            except Exception as e:      # a translator bug on an unforeseen AST shape: fail closed, scoped to this method
                self.failed[key] = "%s:?: internal translator error %s: %s" % (IPFILE, type(e).__name__, e)
                raise Untranslatable(self.failed[key])
            finally:
                self.active.pop()
            self.done[key] = d
            self.order.append(key)
        return self.done[key]


def constants():
    """width / version / max_int of the two strategy modules, as Gallina constants."""
    out = []
    for m, fn in STRATEGY:
        mod = Module(fn)
        known = {}
        for c in ("width", "version", "max_int"):
            ds = [a for a in mod.tree.body if isinstance(a, (ast.Assign, ast.AugAssign, ast.AnnAssign))
                  and any(isinstance(n, ast.Name) and n.id == c for t in (a.targets if isinstance(a, ast.Assign) else [a.target])
                          for n in ast.walk(t))]
            if len(ds) != 1 or not isinstance(ds[0], ast.Assign) or len(ds[0].targets) != 1 or not isinstance(ds[0].targets[0], ast.Name):
                bad(ds[0] if ds else None, "module constant %s is not assigned exactly once at top level" % c, fn)

            def ev(n):
                if isinstance(n, ast.Constant) and isinstance(n.value, int) and not isinstance(n.value, bool):
                    return literal(n, mod.text), n.value
                if isinstance(n, ast.Name) and n.id in known:
                    return "src_%s_%s" % (m, n.id), known[n.id]
                if isinstance(n, ast.BinOp) and type(n.op) in (ast.Add, ast.Sub, ast.Mult, ast.Pow):
                    (a, x), (b, y) = ev(n.left), ev(n.right)
                    if isinstance(n.op, ast.Pow) and y < 0:
                        bad(n, "negative exponent", fn)
                    return ARITH[type(n.op)] % (a, b), {ast.Add: x + y, ast.Sub: x - y, ast.Mult: x * y, ast.Pow: x ** max(y, 0)}[type(n.op)]
                bad(n, "constant expression %s" % type(n).__name__, fn)
            term, known[c] = ev(ds[0].value)
            out.append("(* %s: %s, line %d *)\nDefinition src_%s_%s : Z := %s.\n" % (fn, c, ds[0].lineno, m, c, term))
    return out


def generate():
    tr = Translator()
    for recv, name, _ in WHITELIST:
        assert (recv, name) not in SKIP
        try:
            tr.get(recv, name)
        except Untranslatable:
            pass
    names = [mangle(*k) for k in tr.order]
    assert len(set(names)) == len(names), "name collision"
    head = ("(* GENERATED on every run by harness/gen/pysrc.py from the text of %s and netaddr/strategy/ipv4.py, ipv6.py\n"
            "   of the working tree; do not edit.  Proofs/GenOk_Src.v proves each definition equal to the hand-written model. *)\n"
            "From Coq Require Import ZArith List Bool.\nFrom NV Require Import Base.PyVal Model.Ip Model.SrcPrelude.\n"
            "Import ListNotations.\nOpen Scope Z_scope.\n\n" % IPFILE)
    # a method outside the subset keeps its name, with a one-constructor type NAMED after the reason: every lemma that
    # mentions it stops compiling and the Coq error (hence the replay file) spells out file, line and reason
    fails = ""
    for i, (k, v) in enumerate(sorted(tr.failed.items())):
        ty = "untranslatable_%d__%s" % (i + 1, re.sub(r"[^A-Za-z0-9]+", "_", v).strip("_"))
        fails += ("(* UNTRANSLATABLE %s.%s: %s *)\nInductive %s : Set := Untranslatable_%d.\nDefinition %s : %s := Untranslatable_%d.\n\n"
                  % (k[0], k[1], re.sub(r"[^ -~]", "?", v).replace("*)", "* )"), ty, i + 1, mangle(*k), ty, i + 1))
    text = head + "\n".join(constants()) + "\n" + "\n".join(tr.done[k].text() for k in tr.order) + ("\n" + fails if fails else "")
    text.encode("ascii")
    return {"pysrc_gen.v": text}
