"""Source translator (DESIGN 5.1b): regenerates Gallina definitions from the CURRENT text of netaddr/ip/__init__.py
(and of the other source files listed in UNITS, see "Third round" below; and the three constants width/version/max_int of netaddr/strategy/ipv4.py, ipv6.py) on every run -> coq/Gen/pysrc_gen.v
(methods) and coq/Gen/pysrc_span_gen.v, pysrc_partition_gen.v, pysrc_iprange_gen.v (module-level functions, one file per
property so that a definition Coq rejects cannot take unrelated obligations down).  coq/Proofs/GenOk_Src_*.v prove every
generated definition equal to the hand-written model function of coq/Model/*.v, so a source edit that changes a translated
function changes the generated term and the equality stops compiling.

Pure `ast` on the file text (netaddr is never imported), deterministic, ASCII output, FAIL CLOSED: any node outside the
subset below raises Untranslatable("<file>:<line>: <why>").  A function that cannot be translated (or that depends on one)
is emitted as a constant whose one-constructor type is named after that message, so exactly the lemmas (and the `Cxx_source_tie`
obligations) that mention it stop compiling, with the message in the Coq error; a missing/unparsable source file raises out of generate().

Subset.  Statements: docstring, pass, `x = e`, `x op= e`, `a, b, c = e`, `self._value = e` / `self._prefixlen = e` (recorded as
the new state), if/elif/else, return, raise Name(...) (message ignored), `while`, `for x in <list or iterator>`, break, continue,
`l.append(e)`, `x = l.pop()`, `x._prefixlen = e` on an owned local object, and the one try form `try: x = [IPNetwork(]_iter_next(it)[)] ... except StopIteration: raise E`.
Expressions: int literals, + - * // % & | ^ << >> **, unary -, not/and/or, (chained) comparisons on ints, int(e), bool(e),
min/max of two ints, tuples, None, list literals, `a + b` on lists, `l[::-1]`, `t[k]` with a literal k on a tuple or on a list
literal that is never mutated, iter(l), the fixed attribute environment ATTRS, reads of translated properties / calls of
translated methods of self, of an IPNetwork-valued variable or of a refined operand, calls of translated module-level
functions, and the constructor calls IPAddress(e, ver) / self.__class__(e, ver) / klass(e, ver) -> (mk_addr ver e),
IPNetwork((e1, e2), version=ver) -> (mk_net ver e1 e2) (Model/SrcPrelude.v), IPNetwork(x) for an IPNetwork-valued x -> x.

Reading of the new constructs (all of it is trusted translator input, with the tables WHITELIST, FUNCS, FUEL below):
* Values.  A function parameter declared `net` is an already constructed IPNetwork object (Ip.net); `IPNetwork(x)` on it is the
  copy constructor with default flags = the identity on the model.  `list net` is a Python list/sequence of such objects.
  Lists are Coq lists: `l.append(x)` = l ++ [x], `l.pop()` = SrcPrelude.py_pop (IndexError on []), `l[::-1]` = rev l,
  `a + b` / `a += b` = a ++ b; a list may never be bound to a second name (no aliasing).  Python tuples of non-ints are Coq tuples.
* `while c: body` -> `Fixpoint <f>_loop<N> (fuel : nat) <variables read> <variables assigned> : outcome <variables read later>`,
  structural on fuel, `Raise OutOfFuel` at 0; `break` returns the current variables, the end of the body is the recursive
  call.  The fuel is NOT in the source: it comes from FUEL (a Python int expression evaluated at loop entry + a constant)
  and must be the hand model's.  `for x in xs: body` -> a structural Fixpoint on the list (pure when the body cannot raise).
  `return` inside a loop and nested loops are rejected.  Loops are numbered in source order within their function.
* `if` whose branches fall through and only assign locals is a join: `let/do (x, y) := (if c then .. else ..)`; any other `if`
  is translated with the rest of the block duplicated into both branches (as before).  A name bound in one branch only is
  unbound afterwards.
* `isinstance(other, C)` on a parameter declared `operand` (SrcPrelude.operand: OAddr / ONet / ORng / OOther) splits into the four
  kinds; inside each arm isinstance tests are decided from the class hierarchy of the parsed module (OAddr = IPAddress,
  ONet = IPNetwork, ORng = IPRange incl. IPGlob, OOther = no BaseIP) and attribute reads go to the constructor's fields.
  The final fallback `return <Class>(other) in self` (strings etc.) is OUT OF SCOPE: it becomes `Raise Unsupported` in the OOther arm.
* `x._prefixlen = e` / `x._value = e` on a LOCAL IPNetwork object is a record update `{| nver := nver x; ... |}` that bypasses
  the setter.  Accepted only if x is owned: every binding of x is a constructor result (mk_net, or a translated property all
  of whose results are mk_net calls) and every use of x is `x.<attribute>` (it is never stored, passed, returned or given a
  second name); checked syntactically over the whole function.  From then on a read of a translated property of x whose
  translation relied on the class invariant is preceded by the test 0 <= prefixlen <= width -> else `Raise Unsupported`.
* `2 ** e` with an exponent that depends on a parameter gets the guard `e < 0 -> Raise Unsupported` (Python would build a float).
Third round (other source files, table UNITS; one generated file per unit):
* netaddr/contrib/subnet_splitter.py -> coq/Gen/pysrc_splitter_gen.v.  The object state `self._subnets` (STATEVARS) is read and
  written like a local: it is a leading parameter `self_subnets`, a method that assigns it (also through `self.m(..)` or a mutator
  call on it) returns the new state -- alone if the method returns no value, else the pair (state, value).  A Python set is the
  Coq list of its elements (SrcPrelude: no duplicates under the element equality, insertion order standing for the unspecified
  iteration order): `s.remove(x)` = py_set_remove (KeyError), `set(l)` = py_set_of_list, `s.union(t)` = py_set_union, equality of
  IPNetwork elements = net_key_eqb (key() = version, first, last).  `sorted(xs, key=lambda x: <int>, reverse=True)` =
  py_sorted_desc (stable).  `not l` / `if l` on a list = py_nonempty.  `[y for x in xs for y in f(x)]` = py_flat_map_o.
  `for x in <expression>` evaluates the list once; loops may be nested; `return e` inside a loop that is not itself nested makes
  the loop's Fixpoint answer `inl e` (the function's result) | `inr <variables read afterwards>`.  Calls that are NOT translated
  become prelude symbols that are the callee's hand model (EXTERN: cidr_merge -> py_cidr_merge; list(x.subnet(p, count=c)) ->
  py_list_subnet, Model/SrcPreludeSplitter.v).  A parameter declared `optint` is None or an int (option Z) and may only be passed on.
* netaddr/ip/__init__.py, IPListMixin -> coq/Gen/pysrc_listlike_gen.v (a second unit over the same file; everything it does not list
  is the first unit's).  `"method:variant"` in a unit's entry is a specialisation of the method by the declared parameter types:
  `hasattr(<parameter>, '<name>')` is decided by the declared type (HASATTR), so __getitem__ is translated once for an int index and
  once for a slice index (a slice = the triple of its components, each None or an int).  `try: body / except E1: raise E2(..)` =
  `do <variables assigned in body> <- py_except E1 E2 (body); rest` (body: assignments, if, raise only).  `index.indices(n)` =
  py_slice_indices, `len(_iter_range(a, b, c))` = py_range_len, `_sys_maxint` = ssize_max (Model/PySlice.v; compat_ok() checks how
  netaddr/compat.py binds the two names), `iter([])` = ItEmpty and the not yet started generator `iter_iprange(a, b, step)` =
  ItIprange (Model/ListLike.v).
* netaddr/strategy/__init__.py -> pysrc_strategy_gen.v: a word sequence is a list of ints.  `len(l)` = Z.of_nat (length l);
  `for _ in range(n)` = a Fixpoint on the nat Z.to_nat n (the loop variable must not be read); `for i, x in enumerate(l)` carries
  the counter i = 0, 1, ..; `reversed(l)` = rev l where it is consumed at once (for / enumerate / tuple); `tuple(l)` = l.
  Text (parameters declared `str`, string literals) is a Coq string: `a == b` / `!=` = String.eqb, `len(s)` = str_len,
  `s.replace(a, b)` = replace, `s.startswith(p)` = starts_with (Base/PyStr.v), `s[k:]` = py_str_from k, `int(s, 2)` = py_int_o
  (ValueError), `bin(e)` = py_bin, `CHARSET.issuperset(s)` for a module-level frozenset([..]) of characters = py_chars_in
  (Model/SrcPreludeStr.v); `_is_str(x)` is decided by the type (compat binds it to `lambda x: isinstance(x, ..)`);
  `try: <if/return/raise, no assignment> / except E: pass` = py_except_pass E (body answering inl r | inr tt);
  `try: .. / except NameError: ..` around code that reads only locals and known builtins is its body (the handler is dead).
* netaddr/strategy/eui48.py, eui64.py -> pysrc_eui48_gen.v, pysrc_eui64_gen.v: a dialect parameter (`optdialect`) is None or the
  pair (word_size, num_words) of a dialect class; `if dialect is None: dialect = DEFAULT` binds the pair; DEFAULT is a generated
  constant read from the class bodies (int constant expressions, evaluated per class body, looked up through the bases).  A function
  imported under an alias from another unit's module (`from netaddr.strategy import int_to_words as _int_to_words`) is that unit's
  translated definition.
* netaddr/eui/__init__.py -> pysrc_eui_gen.v: an EUI receiver is (ver, v) = (_module.version, _value); `self._module == _eui48` /
  `is` = `ver =? src_eui48_version` (the modules are told apart by their regenerated `version` constants); `name = property(_getter,
  ..)` is read through `_getter`; `self.__class__(e, version=k)` = mk_eui k e (Model/SrcPreludeEui.v = eui_init on an int);
  `OUI(e)` / `IAB(e)` are represented by the integer e (CTOR_AS_ARG: the registry lookup of the constructor is not translated);
  `e in C.ATTR` for a class-level tuple of int literals = existsb (Z.eqb e) [..]; `x._value op= e` on an owned local EUI object
  is a record update (and `return x` is allowed for an owned object); `int(x)` = the translated __int__.
* netaddr/ip/__init__.py, classification -> pysrc_classify_gen.v (needs Gen/classify_gen.v): the block tables are module-level
  names whose VALUES harness/gen/classify.py regenerates (UNIT_TABLES: one row (kind, version, a, b) or a list of rows);
  `self in T` = src_contains_row T <receiver as operand> (UNIT_PREAMBLE: the translated __contains__ of the row's class);
  `if self.m():` / `not self.m()` for a method that returns a bool on some paths and None on the others = py_truthy.
Conventions (DESIGN 3): Python ints are Z; a shift count that depends on a parameter gets CPython's `ValueError: negative shift
count` guard, a count built from object state and literals only is taken as non-negative (class invariant 0 <= prefixlen <=
width); method parameters are ints unless declared otherwise in WHITELIST; every parameter of a module-level function is declared in FUNCS.
SRCA (netaddr/ip/sets.py -> coq/Gen/pysrc_sets*_gen.v, units SETS_UNITS; code in the block `SRCA` after class Translator, active for
these units only):
* An IPSet object is its only attribute `_cidrs`; that dict (IPNetwork keys, every value True) is the insertion-ordered list of its
  keys: types `ipset` / `dict`, both `list net`; `x._cidrs` of an IPSet x is x; the state of a method is the leading parameter
  `self_cidrs` (STATEVARS).  A parameter declared `ipset` is an already constructed IPSet (`hasattr(other, '_cidrs')` is true; a
  `try: <reads of _cidrs only> / except AttributeError:` is its body).  Dict operations are the symbols py_dict_* of
  Model/SrcPreludeSets.v (= Sets.dmem / dset / ddel / dfromkeys / dupdate / dict_eqb): `k in d`, `d[k] = True`, `del d[k]` (KeyError),
  `d.update(e)`, `dict.fromkeys(l, True)`, `d == e`, `{}`, `bool(d)`, `_dict_keys(d)` / `for k in d` (the keys, insertion order; the
  body may change d only directly before `return` / `break`).  sets_prepare() rewrites these statements to assignments
  `d = __sets_dict_*(d, ..)` before translation (the names __sets_* are the translator's, not Python's).
* `sorted(d)` = py_sorted_nets (Sets.sorted: IPNetwork ordering by sort_key(), stable); on IPNetwork objects `a == b` = net_key_eqb
  (key()), `a < b` = py_net_ltb (sort_key()), `a in b` = the translated IPNetwork.__contains__ on the operand ONet a;
  `x in <IPSet>` = the translated IPSet.__contains__; `not <IPSet>` = its __nonzero__; the truth value of an int is `!= 0`.
* `l[i]` on a list = py_index (IndexError; negative i from the end), `l[k:]` = py_list_from k, `n[i]` on an IPNetwork = the
  translated IPListMixin.__getitem__:int, `sum([<int> for x in xs])` = py_sum (map ..), `IPSet()` / `self.__class__()` = the
  translated __init__ for iterable None on a new object (empty state), `IPRange(a, b)` on two IPAddress objects = py_iprange (the hand model of that constructor), `cidr_merge(l)` = py_cidr_merge,
  `iprange_to_cidrs(a, b)` on two IPAddress objects = the translated function on py_net_of_addr a, b (its own IPNetwork(start)).
* `x = IPNetwork(<name>)` is a private copy: `x._prefixlen -= 1` is a record update as long as x is only read as x.<attr> or as the
  left operand of `in`.  `return <comparison> and <call>` evaluates the call only if the comparison holds.  `assert` is dropped.
  `for a, b in e` unpacks a fresh loop variable.  `x.m(..)` as a statement on a local IPSet x, for a method m that assigns the
  state, is `x = x.m(..)`.
* Index-driven traversal needs nothing new: `l[i]` = py_index, `i += 1`, `while i < n` with the fuel of FUEL.  An out-parameter
  (SETS_OUTPARAM: `ranges` of _subtract, a list the function appends to and the caller reads afterwards): the function returns
  (that list, its value) and the call `x = f(.., l)` is `l, x = f(.., l)`.  A generator function (`yield`) whose callers consume it
  at once in a `for` is the function that returns the list of what it yields (sets_yield).  Tuples of values are Coq tuples, an
  IPAddress component is its pair (version, value); `[e for x in xs]` with a pure e = map.
* Variants by argument type (`add:net`, `add:iprange`, `update:ipset/net/iprange/list`, `__init__:none/net/iprange/ipset/list`,
  `remove:net/iprange`): `isinstance(<name>, C)` and `<parameter> is None` are decided by the declared type (`ipset` IPSet, `net`
  IPNetwork, `iprange` IPRange = (version, start, end), `list net`, `none`; also for the loop variable of a `for` over a `list net`
  parameter); a decided branch that ends with return / raise is not followed by the rest of the block.  A call `x.m(a)` /
  `self.m(a)` of a method translated in variants picks the variant by the type of `a`; missing trailing arguments take their int
  defaults.  `r[i]` on an `iprange` = the translated IPListMixin.__getitem__:int for IPRange.
* _compact_single_network changes its parameter in place (SETS_MUTABLE_PARAMS): it is translated on a local copy; accepted only if
  every read of the parameter is x.<attr>, `x in d`, `x == y`, or the key of `d[x] = True` / `del d[x]`, if `del d[x]` precedes the
  attribute assignments in their block (the object is in no dict when it changes), and if every caller does not read its argument
  after the call.  `x.prefixlen = e` goes through the translated setter _set_prefixlen, `x._value = e` is a record update;
  `x.previous()` / `x.next()` = py_net_previous / py_net_next (hand models), `x.supernet()` = the translated method.
  `X = None / for v in d: if c: X = ..; break / if X is not None: body` at the end of a function is
  `for v in d: if c: X = ..; body; return` (inline_search_loop).  `{k: True}` = py_dict_set [] k, `d.popitem()[0]` in a return =
  py_dict_popitem.  The auxiliary names h<N> inside and after loop N of a sets unit start at 1000 * N (a loop after an `if` with
  exits is translated once per branch and both texts must agree).
"""
import ast
import os
import re

REPO = os.environ.get("NV_REPO", "/repo")
IPFILE = "netaddr/ip/__init__.py"
STRATEGY = (("ipv4", "netaddr/strategy/ipv4.py"), ("ipv6", "netaddr/strategy/ipv6.py"))

# receiver class -> parameters standing for the object state (version, width, _value[, _prefixlen] / _start, _end values)
STATE = {"BaseIP": ("ver", "w", "v"), "IPAddress": ("ver", "w", "v"), "IPNetwork": ("ver", "w", "v", "p"),
         "IPRange": ("ver", "w", "s", "e"), None: (), "SubnetSplitter": (), "EUI": ("ver", "v")}
FIELD = {"self._value": "v", "self._prefixlen": "p"}      # assignable state attributes -> their state parameter

# ---- trusted translator input --------------------------------------------------------------------------------------
# (receiver class, method, {parameter: type}); the method is looked up through the receiver's bases
WHITELIST = [(c, m, {}) for c, ms in (
    ("IPNetwork", "_hostmask_int _netmask_int first last size network broadcast netmask hostmask ip cidr key sort_key "
                  "__iadd__ __isub__ version prefixlen supernet"),
    ("BaseIP", "is_ipv4_mapped is_ipv4_compat version"),
    ("IPAddress", "key sort_key is_hostmask is_netmask __int__ __index__ __nonzero__ __iadd__ __isub__ __add__ __sub__ "
                  "__rsub__ __or__ __and__ __xor__ __lshift__ __rshift__ ipv4 version netmask_bits"),
    ("IPRange", "first last key size version")) for m in ms.split()] + [
    ("BaseIP", "_set_value", {"value": "sarg"}), ("IPNetwork", "_set_prefixlen", {"value": "sarg"}),
    ("IPAddress", "ipv6", {"ipv4_compatible": "bool"}), ("IPNetwork", "ipv6", {"ipv4_compatible": "bool"}),
    ("IPNetwork", "__contains__", {"other": "operand"}), ("IPRange", "__contains__", {"other": "operand"})]
# module-level functions (receiver None): every parameter is declared
FUNCS = [(None, "spanning_cidr", {"ip_addrs": "list net"}), (None, "cidr_partition", {"target": "net", "exclude": "net"}),
         (None, "cidr_exclude", {"target": "net", "exclude": "net"}), (None, "iprange_to_cidrs", {"start": "net", "end": "net"})]
# output files in dependency order; a definition may use definitions of its own file and of the files before it
FILES = ("pysrc_gen.v", "pysrc_span_gen.v", "pysrc_partition_gen.v", "pysrc_iprange_gen.v")
FILE_OF = {"spanning_cidr": "pysrc_span_gen.v", "cidr_partition": "pysrc_partition_gen.v",
           "cidr_exclude": "pysrc_partition_gen.v", "iprange_to_cidrs": "pysrc_iprange_gen.v"}
# fuel of every `while` loop: (receiver, function, loop number) -> (Python int expression evaluated at loop entry, constant);
# the loop runs with fuel `Z.to_nat <expression> + <constant>` -- the hand model's fuel (Model/Ip.v nb_loop, Span.v span_loop,
# Partition.v part_loop,
# Subnet.v supernet_loop).  A while loop without an entry is untranslatable.
FUEL = {("IPAddress", "netmask_bits", 1): ("self._module.width", 2),
        ("IPNetwork", "supernet", 1): ("self._module.width", 2),
        (None, "spanning_cidr", 2): ("width", 1),
        (None, "cidr_partition", 1): ("target_module_width", 1)}
# documented skip list: (receiver, method) -> reason.  Nothing of the requested whitelist is skipped.
SKIP = {("IPRange", "sort_key"): "calls core.num_bits (int.bit_length): outside the integer-expression subset",
        ("IPNetwork", "netmask.setter"): "string/IPAddress argument through the IPAddress() parser",
        ("IPAddress", "__radd__"): "class-level alias `__radd__ = __add__`, not a function definition (covered by __add__)",
        ("IPAddress", "__bool__"): "class-level alias `__bool__ = __nonzero__` (covered by __nonzero__)",
        ("IPListMixin", "__contains__"): "reachable only from user subclasses; IPNetwork and IPRange override it",
        ("IPNetwork", "__contains__ fallback"): "`return IPNetwork(other) in self` for a non-BaseIP operand (string parser): Raise Unsupported",
        ("IPRange", "__contains__ fallback"): "`return IPAddress(other) in self` for a non-BaseIP operand (string parser): Raise Unsupported"}

# ---- third round: other source files.  One unit = (source file, output file, prefix of the generated names of its module-level
# functions, extra `Require`d prelude modules, entries as in WHITELIST/FUNCS).  A unit may call translated definitions of
# netaddr/ip/__init__.py through the names it imports from netaddr.ip.
UNITS = [
    ("netaddr/contrib/subnet_splitter.py", "pysrc_splitter_gen.v", "", " Model.SrcPreludeSplitter",
     [("SubnetSplitter", "available_subnets", {}), ("SubnetSplitter", "remove_subnet", {"ip_network": "net"}),
      ("SubnetSplitter", "extract_subnet", {"prefix": "int", "count": "optint"})]),
    # IPListMixin indexing / len for the two receiver classes; `__getitem__:int` / `__getitem__:slice` are the two specialisations
    # of __getitem__ by the declared type of `index` (`hasattr(index, 'indices')` is decided by that type)
    (IPFILE, "pysrc_listlike_gen.v", "", " Model.PySlice Model.ListLike",
     [(c, m, t) for c in ("IPNetwork", "IPRange") for m, t in (
         ("__len__", {}), ("__getitem__:int", {"index": "int"}), ("__getitem__:slice", {"index": "slice"}))]),
    # the word functions of netaddr/strategy/__init__.py; a sequence of words is a list of ints
    ("netaddr/strategy/__init__.py", "pysrc_strategy_gen.v", "strategy_", " Base.PyStr Model.SrcPreludeStr",
     [(None, f, {"words": "list int", "int_val": "int", "word_size": "int", "num_words": "int"}) for f in (
         "valid_words", "int_to_words", "words_to_int")] +
     # the bit-string / binary-literal functions: text is a Coq string (Base/PyStr.v), its operations are SrcPreludeStr symbols
     [(None, f, {"bits": "str", "bin_val": "str", "word_sep": "str", "width": "int", "int_val": "int"}) for f in (
         "valid_bits", "bits_to_int", "valid_bin", "bin_to_int", "int_to_bin")]),
    # the word functions of the two EUI strategy modules (they pick the dialect and call the functions above)
    ("netaddr/strategy/eui48.py", "pysrc_eui48_gen.v", "eui48_", "",
     [(None, f, {"words": "list int", "int_val": "int", "dialect": "optdialect"}) for f in ("valid_words", "int_to_words", "words_to_int")]),
    ("netaddr/strategy/eui64.py", "pysrc_eui64_gen.v", "eui64_", "",
     [(None, f, {"words": "list int", "int_val": "int", "dialect": "optdialect"}) for f in ("valid_words", "int_to_words", "words_to_int")]),
    # the integer methods of EUI (state: _module.version, _value)
    ("netaddr/eui/__init__.py", "pysrc_eui_gen.v", "", " Model.Eui Model.SrcPreludeEui",
     [("EUI", m, {}) for m in ("version", "value", "__int__", "oui", "is_iab", "eui64", "modified_eui64", "ipv6", "ipv6_link_local")]),
    # the address classification predicates of BaseIP, one copy per receiver class; the block tables they consult are module-level
    # names whose VALUES are regenerated by harness/gen/classify.py (coq/Gen/classify_gen.v: rows (kind, version, a, b)): UNIT_TABLES
    (IPFILE, "pysrc_classify_gen.v", "", " Gen.classify_gen",
     [(c, m, {}) for c in ("IPAddress", "IPNetwork", "IPRange")
      for m in ("is_multicast", "is_unicast", "is_loopback", "is_link_local", "is_private", "is_reserved")]),
]
# module-level names of a unit's source file that stand for generated tables: output file -> {name: type}; `row` = one
# IPNetwork / IPRange object as the row (kind, version, value-or-start, prefixlen-or-end) of classify_gen.v
UNIT_TABLES = {"pysrc_classify_gen.v": dict([("IPV%d_%s" % (v, n), "row") for v in (4, 6) for n in ("LOOPBACK", "LINK_LOCAL", "MULTICAST")]
                                            + [("IPV%d_%s" % (v, n), "list row") for v in (4, 6) for n in ("PRIVATE", "RESERVED")])}
# fixed text at the top of a unit's file.  `x in T` for a table row T is T.__contains__(x) of the row's class:
UNIT_PREAMBLE = {"pysrc_classify_gen.v": (
    "(* `x in T` for a row T of Gen/classify_gen.v: the translated __contains__ of the row's class (kind 0 = IPNetwork, 1 = IPRange) *)\n"
    "Definition src_contains_row (r : Z * Z * Z * Z) (o : operand) : outcome bool :=\n"
    "  let '(k, ver, a, b) := r in\n"
    "  if k =? 0 then src_IPNetwork_contains ver (width ver) a b o else src_IPRange_contains ver (width ver) a b o.\n")}
# the receiver as the operand of `self in T`
SELF_OPERAND = {"IPAddress": "(OAddr ver v)", "IPNetwork": "(ONet ver v p)", "IPRange": "(ORng ver s e)"}
# strategy modules whose constants width / version / max_int a unit may read through the alias it imports them under
UNIT_STRATEGY = {"pysrc_eui_gen.v": (("eui48", "netaddr/strategy/eui48.py"), ("eui64", "netaddr/strategy/eui64.py"))}
# classes whose constructor call C(e) is represented by its integer argument e (the registry lookup the constructor makes is
# NOT translated; the models of C08/C19 treat it separately)
CTOR_AS_ARG = ("OUI", "IAB")
# names imported from netaddr.compat that a unit may read: output file -> {name: (type, Coq term)}; the term must be defined by
# the modules the unit `Require`s (Model/PySlice.v: ssize_max = sys.maxsize of the 64-bit platform the check runs on).
# compat_ok() checks that netaddr/compat.py still binds the name to one of the expressions listed here.
UNIT_NAMES = {"pysrc_listlike_gen.v": {"_sys_maxint": ("int", "ssize_max")}}
COMPAT = {"_sys_maxint": ("_sys.maxsize", "_sys.maxint"), "_iter_range": ("range", "xrange")}
# hasattr(<parameter>, <name>) by the declared type of the parameter
HASATTR = {("int", "indices"): False, ("slice", "indices"): True, ("int", "__iter__"): False, ("list", "__iter__"): True}
FILES = FILES + tuple(u[1] for u in UNITS)
# classes whose object state is a set of attributes read and written like locals: (attribute, type) in parameter order.  A method
# that assigns one of them (or calls a method that does) returns the new state: alone if it returns no value, else (state, value).
STATEVARS = {"SubnetSplitter": (("_subnets", "set net"),)}
# calls that are NOT translated: they become symbols of the prelude named in the unit (the hand model of the callee):
# imported function -> (symbol, parameter types, result type); all of them can raise
EXTERN = {"netaddr.ip.cidr_merge": ("py_cidr_merge", ("list net",), "list net")}

EXN = ("AddrFormatError", "AddrConversionError", "ValueError", "TypeError", "IndexError", "KeyError", "StructError",
       "NotRegisteredError", "AttributeError", "OverflowError")
RESERVED = set("ver w v p s e in let if then else match with end fun forall exists as return at do fix cofix for using "
               "where Type Prop Set Ok Raise Some None true false fst snd negb omap bind width max_int_w mk_addr mk_net "
               "SInt Z bool list option outcome net sarg nil cons nver nval nplen rev app map fuel xs nat unit tt O S "
               "py_pop operand OAddr ONet ORng OOther struct "
               "py_nonempty py_sorted_desc py_set_remove py_set_of_list py_set_union py_flat_map_o net_key_eqb py_list_subnet "
               "py_cidr_merge inl inr sum py_except ssize_max py_slice_indices py_range_len iterator ItEmpty ItIprange "
               "eui ever evalue edialect mk_eui existsb py_truthy src_contains_row string String py_str_from py_chars_in py_int_o "
               "py_bin py_except_pass replace starts_with str_len chars str_of "
               # constructors / constants of the Coq prelude: a pattern variable of that name would be read as the constructor
               "left right inl inr pair tt I conj eq_refl xH xO xI Z0 Zpos Zneg Lt Gt Eq ex_intro exist inleft inright "
               "Build_net AddrFormatError AddrConversionError ValueError TypeError IndexError KeyError StructError "
               "NotRegisteredError AttributeError OverflowError OutOfFuel Unsupported SAddr SOther".split())
ARITH = {ast.Add: "(%s + %s)", ast.Sub: "(%s - %s)", ast.Mult: "(%s * %s)", ast.BitAnd: "(Z.land %s %s)",
         ast.BitOr: "(Z.lor %s %s)", ast.BitXor: "(Z.lxor %s %s)", ast.LShift: "(Z.shiftl %s %s)",
         ast.RShift: "(Z.shiftr %s %s)", ast.FloorDiv: "(%s / %s)", ast.Mod: "(%s mod %s)", ast.Pow: "(%s ^ %s)"}
CMP = {ast.Lt: "(%s <? %s)", ast.LtE: "(%s <=? %s)", ast.Gt: "(%s >? %s)", ast.GtE: "(%s >=? %s)", ast.Eq: "(%s =? %s)",
       ast.NotEq: "(negb (%s =? %s))"}
COQTY = {"int": "Z", "bool": "bool", "tuple": "(list Z)", "obj": "(Z * Z)", "net": "net", "self": "Z", "sarg": "sarg",
         "operand": "operand", "unit": "unit", "optint": "(option Z)", "slice": "(option Z * option Z * option Z)",
         "iterator": "iterator", "eui": "eui", "dialect": "(Z * Z)", "optdialect": "(option (Z * Z))", "row": "(Z * Z * Z * Z)",
         "optbool": "(option bool)", "str": "string"}
# the kinds of an `operand` (SrcPrelude.operand), their fields and the class each one stands for
OPERAND = (("OAddr", ("ver", "v")), ("ONet", ("ver", "v", "p")), ("ORng", ("ver", "s", "e")), ("OOther", ()))
KINDCLASS = {"OAddr": "IPAddress", "ONet": "IPNetwork", "ORng": "IPRange"}
MUTATORS = ("append", "pop")
PURE_METHODS = ("subnet", "union")      # x.subnet(..) (IPNetwork: a generator over new objects), s.union(t) (a new set): x, s unchanged

# ---- SRCA: netaddr/ip/sets.py (IPSet; checks C07 and C06).  Tables of the sets units; the code is the block `SRCA` after class Translator.
SETSFILE = "netaddr/ip/sets.py"
SETS_REQ = " Model.PySlice Model.SrcPreludeSplitter Model.SrcPreludeSets"
# three units over the same file, in dependency order: queries (C07), two-cursor sweeps (C07), mutators (C06).  A unit may call
# the definitions of the units before it.  An IPSet parameter (`ipset`) is an already constructed IPSet object = its state.
SETS_UNITS = [
    (SETSFILE, "pysrc_sets_gen.v", "sets", SETS_REQ,
     [("IPSet", "__init__:none", {"iterable": "none"})] +
     [("IPSet", m, {}) for m in ("iter_cidrs", "__nonzero__", "size", "__len__", "iscontiguous", "iprange", "clear", "copy")] +
     [("IPSet", "__contains__", {"ip": "net"})] +
     [("IPSet", m, {"other": "ipset"}) for m in ("issubset", "issuperset", "__lt__", "__gt__", "__eq__", "__ne__")]),
    (SETSFILE, "pysrc_sets_ops_gen.v", "sets", SETS_REQ,
     [(None, "_subtract", {"supernet": "net", "subnets": "list net", "subnet_idx": "int", "ranges": "list rng"}),
      (None, "_iter_merged_ranges", {"sorted_ranges": "list rng"})] +
     [("IPSet", m, {"other": "ipset"}) for m in ("intersection", "isdisjoint", "difference", "symmetric_difference")] +
     [("IPSet", "iter_ipranges", {})]),
    (SETSFILE, "pysrc_sets_mut_gen.v", "sets", SETS_REQ,
     [("IPSet", "compact", {}), ("IPSet", "pop", {}), ("IPSet", "update:ipset", {"iterable": "ipset"}), ("IPSet", "union", {"other": "ipset"})]),
    # add / remove of an IPNetwork object; _compact_single_network changes its parameter (SETS_MUTABLE_PARAMS)
    (SETSFILE, "pysrc_sets_add_gen.v", "sets", SETS_REQ,
     [("IPSet", "_compact_single_network", {"added_network": "net"}), ("IPSet", "add:net", {"addr": "net"}),
      ("IPSet", "remove:net", {"addr": "net"})]),
    # the other argument forms that need no parsing: an IPRange object (`iprange` = (version, start value, end value)), a list of
    # IPNetwork objects, None
    (SETSFILE, "pysrc_sets_bulk_gen.v", "sets", SETS_REQ,
     [("IPSet", "add:iprange", {"addr": "iprange"}), ("IPSet", "remove:iprange", {"addr": "iprange"}),
      ("IPSet", "update:net", {"iterable": "net"}), ("IPSet", "update:iprange", {"iterable": "iprange"}),
      ("IPSet", "update:list", {"iterable": "list net"})] +
     [("IPSet", "__init__:" + t.split()[0], {"iterable": t}) for t in ("net", "iprange", "ipset", "list net")]),
]
# IPNetwork.__getstate__ (netaddr/ip/__init__.py) for IPSet.__getstate__: a unit of its own, before the sets units
SETS_IP_UNIT = (IPFILE, "pysrc_sets_ip_gen.v", "", "", [("IPNetwork", "__getstate__", {})])
SETS_UNITS.append(
    (SETSFILE, "pysrc_sets_state_gen.v", "sets", SETS_REQ, [("IPSet", "__getstate__", {}), ("IPSet", "__setstate__", {"state": "list rng"})]))
UNITS += [SETS_IP_UNIT] + SETS_UNITS
FILES = FILES + (SETS_IP_UNIT[1],) + tuple(u[1] for u in SETS_UNITS)
SETS_FILES = tuple(u[1] for u in SETS_UNITS)
STATE["IPSet"] = ()
STATEVARS["IPSet"] = (("_cidrs", "dict"),)          # the dict `_cidrs` (IPNetwork keys, values True) = the list of its keys
COQTY.update({"dict": "(list net)", "ipset": "(list net)", "iprange": "(Z * Z * Z)", "none": "unit"})
SETS_VALUE_TYPES = ("dict", "ipset", "iprange", "tuple")
HASATTR[("ipset", "_cidrs")] = True
for _u in SETS_FILES:
    UNIT_NAMES[_u] = {"_sys_maxint": ("int", "ssize_max")}
# fuel of the while loops of sets.py (the hand model's: Sets.contains_walk runs on Z.to_nat prefixlen + 1)
# (written over parameters and the state only, so that renaming a local does not break the translation)
FUEL[("IPSet", "__contains__", 1)] = ("ip._prefixlen", 1)
FUEL[(None, "_subtract", 1)] = ("len(subnets)", 1)
for _m in ("intersection", "difference", "symmetric_difference"):       # Sets.inter_loop / diff_loop / symdiff_loop: length a + length b + 1
    FUEL[("IPSet", _m, 1)] = ("len(self_cidrs) + len(other._cidrs)", 1)
FUEL[("IPSet", "difference", 2)] = ("len(self_cidrs)", 1)
FUEL[("IPSet", "symmetric_difference", 2)] = ("len(self_cidrs)", 1)
FUEL[("IPSet", "symmetric_difference", 3)] = ("len(other._cidrs)", 1)
# a list parameter that the function appends to and the caller reads afterwards: function -> index of that parameter; the function
# returns (that list, its value), the call `x = f(.., l)` is `l, x = f(.., l)`
SETS_OUTPARAM = {"_subtract": 3}
FUEL[("IPSet", "_compact_single_network", 4)] = ("added_network.prefixlen", 1)      # Sets.merge_up: Z.to_nat (nplen added) + 1
# an IPNetwork parameter that the method changes in place (`x.prefixlen -= 1`, `x._value = e`): the method is translated with a
# local copy; every caller must not read its argument after the call (checked at the call), and the object must be out of every
# dict when it is changed (checked: `del d[x]` precedes the attribute assignments in their block)
SETS_MUTABLE_PARAMS = {("IPSet", "_compact_single_network"): "added_network"}
RESERVED |= set("py_dict_mem py_dict_set py_dict_del py_dict_fromkeys py_dict_update py_dict_eqb py_dict_popitem py_sorted_nets "
                "py_net_ltb py_index py_list_from py_sum py_cidr_merge_nets py_iprange py_net_of_addr py_net_previous py_net_next py_map_o".split())


class Untranslatable(Exception):
    pass


class NoJoin(Exception):
    """an `if` that cannot be written as a join of its assigned locals: translated by duplicating the continuation"""


CURFILE = [IPFILE]      # the source file being translated (innermost last): names the file in every Untranslatable message


def bad(node, why, fn=None):
    raise Untranslatable("%s:%s: %s" % (fn or CURFILE[-1], getattr(node, "lineno", "?"), why))


def mangle(recv, name, prefix=""):
    name, _, variant = name.partition(":")          # "method:variant" = a specialisation of the method (see UNITS)
    return ("src_%s_%s" % (recv, name.strip("_")) if recv else "src_%s%s" % (prefix, name)) + ("_" + variant if variant else "")


def dotted(node):
    parts = []
    while isinstance(node, ast.Attribute):
        parts.append(node.attr)
        node = node.value
    return ".".join([node.id] + parts[::-1]) if isinstance(node, ast.Name) else None


def literal(node, text):
    seg = ast.get_source_segment(text, node) or ""
    s = ("0x%x" if seg[:2].lower() == "0x" else "%d") % node.value
    return s if node.value >= 0 else "(%s)" % s


def const_int(node):
    """the value of an integer literal (possibly negated), else None"""
    if isinstance(node, ast.UnaryOp) and isinstance(node.op, ast.USub):
        v = const_int(node.operand)
        return None if v is None else -v
    if isinstance(node, ast.Constant) and isinstance(node.value, int) and not isinstance(node.value, bool):
        return node.value
    return None


def in_order(found):
    """names of (line, column, name) triples in source order, each once"""
    out = []
    for _, _, x in sorted(found):
        if x not in out:
            out.append(x)
    return out


def assigned_names(stmts):
    """local names (re)bound or mutated by the statements: assignment / loop targets, l.append, l.pop, _iter_next(it)"""
    found = []
    for st in stmts:
        for n in ast.walk(st):
            if isinstance(n, ast.Name) and isinstance(n.ctx, ast.Store):
                found.append((n.lineno, n.col_offset, n.id))
            elif isinstance(n, ast.Attribute) and isinstance(n.ctx, ast.Store) and isinstance(n.value, ast.Name):
                found.append((n.lineno, n.col_offset, n.value.id))             # x._prefixlen = e rebinds the local object x
            elif (isinstance(n, ast.Call) and isinstance(n.func, ast.Attribute) and isinstance(n.func.value, ast.Name)
                  and n.func.attr not in PURE_METHODS):
                found.append((n.lineno, n.col_offset, n.func.value.id))        # any other method call on a name may mutate it
            elif isinstance(n, ast.Call) and dotted(n.func) == "_iter_next" and n.args and isinstance(n.args[0], ast.Name):
                found.append((n.lineno, n.col_offset, n.args[0].id))
    return in_order(found)


def loaded_names(nodes):
    return in_order([(n.lineno, n.col_offset, n.id) for st in nodes for n in ast.walk(st)
                     if isinstance(n, ast.Name) and isinstance(n.ctx, ast.Load)])


# ---- types: "int" "bool" "net" "obj" "none" "cls" "sarg" "operand" | ("list", Cell) | ("iter", Cell) | ("tup", types)
#             | ("seq",) a never-mutated list literal (env only) | ("opnd", kind, {field: name}) a refined operand (env only)
class Cell:
    """element type of a list, found by unification (`left = []` learns it from the first append)"""

    def __init__(self, t=None):
        self.t, self.link = t, None

    def find(self):
        c = self
        while c.link is not None:
            c = c.link
        return c


def is_list(t):
    return isinstance(t, tuple) and t[0] == "list"


def is_set(t):
    return isinstance(t, tuple) and t[0] == "set"


def is_value(t):
    """types whose terms are first-class Coq values that a loop or a join can carry"""
    return t in ("int", "bool", "net", "optint", "iterator", "eui", "dialect", "optdialect", "row", "optbool", "str") or (isinstance(t, tuple) and t[0] in ("list", "tup", "set"))


def parse_type(s):
    return ("list", Cell(s[5:])) if s.startswith("list ") else ("set", Cell(s[4:])) if s.startswith("set ") else s


def show(t):
    if isinstance(t, str):
        return t
    if t[0] in ("list", "iter", "set"):
        return "%s of %s" % (t[0], show(t[1].find().t or "?"))
    if t[0] == "tup":
        return "tuple (%s)" % ", ".join(show(x) for x in t[1])
    return t[0]


def coqty(t, node=None):
    if isinstance(t, str):
        return COQTY[t]
    if t[0] in ("list", "iter", "set"):      # a set is the list of its elements in an unspecified order, without duplicates
        e = t[1].find().t
        if e is None:
            bad(node, "list whose element type is never determined")
        return "(list %s)" % coqty(e, node)
    if t[0] == "tup":
        return "(%s)" % " * ".join(coqty(x, node) for x in t[1])
    bad(node, "%s where a Coq value is needed" % show(t))


def unify(node, a, b, what):
    if isinstance(a, str) or isinstance(b, str) or a[0] != b[0]:
        if a != b:
            bad(node, "%s: %s where %s is expected" % (what, show(a), show(b)))
    elif a[0] in ("list", "iter", "set"):
        ca, cb = a[1].find(), b[1].find()
        if ca is cb:
            return
        if ca.t is None:
            ca.link = cb
        elif cb.t is None:
            cb.link = ca
        else:
            unify(node, ca.t, cb.t, what)
    elif a[0] == "tup" and len(a[1]) == len(b[1]):
        for x, y in zip(a[1], b[1]):
            unify(node, x, y, what)
    else:
        bad(node, "%s: %s where %s is expected" % (what, show(a), show(b)))


def tuple_term(terms):
    return "tt" if not terms else terms[0] if len(terms) == 1 else "(%s)" % ", ".join(terms)


def tuple_type(types):
    return "unit" if not types else types[0] if len(types) == 1 else ("tup", tuple(types))


def pattern(names):
    return "_" if not names else names[0] if len(names) == 1 else "(%s)" % ", ".join(names)    # in a let: '(a, b)


def unparen(s):
    return re.sub(r"^\((.*)\)$", r"\1", s)


def compat_ok(name):
    """is `name` bound in netaddr/compat.py only by assignments of the expressions COMPAT lists for it?  (trusted reading:
    _sys_maxint = sys.maxsize, _iter_range = range)"""
    fn = "netaddr/compat.py"
    text = open(os.path.join(REPO, fn), encoding="utf-8").read()
    binds = [n for n in ast.walk(ast.parse(text)) if (isinstance(n, (ast.FunctionDef, ast.ClassDef)) and n.name == name)
             or (isinstance(n, ast.alias) and (n.asname or n.name) == name)
             or (isinstance(n, (ast.Assign, ast.AugAssign, ast.AnnAssign, ast.For, ast.With, ast.NamedExpr)) and any(
                 isinstance(t, ast.Name) and t.id == name and isinstance(t.ctx, ast.Store) for t in ast.walk(n)
                 if not isinstance(n, ast.For) or t in ast.walk(n.target)))]
    if not binds or any(not (isinstance(b, ast.Assign) and len(b.targets) == 1 and isinstance(b.targets[0], ast.Name)
                             and dotted(b.value) in COMPAT.get(name, ())) for b in binds):
        bad(binds[-1] if binds else None, "%s is not bound in compat.py the way the translator assumes" % name, fn)
    return True


def compat_lambda_isinstance(name):
    """is `name` bound in netaddr/compat.py only as `name = lambda x: isinstance(x, ...)`?"""
    fn = "netaddr/compat.py"
    text = open(os.path.join(REPO, fn), encoding="utf-8").read()
    binds = [n for n in ast.walk(ast.parse(text)) if (isinstance(n, (ast.FunctionDef, ast.ClassDef)) and n.name == name)
             or (isinstance(n, ast.alias) and (n.asname or n.name) == name)
             or (isinstance(n, (ast.Assign, ast.AugAssign, ast.AnnAssign)) and any(
                 isinstance(t, ast.Name) and t.id == name and isinstance(t.ctx, ast.Store) for t in ast.walk(n)))]
    ok = lambda b: (isinstance(b, ast.Assign) and len(b.targets) == 1 and isinstance(b.targets[0], ast.Name) and isinstance(b.value, ast.Lambda)
                    and len(b.value.args.args) == 1 and isinstance(b.value.body, ast.Call) and dotted(b.value.body.func) == "isinstance"
                    and len(b.value.body.args) == 2 and dotted(b.value.body.args[0]) == b.value.args.args[0].arg)
    if not binds or not all(ok(b) for b in binds):
        bad(binds[-1] if binds else None, "%s is not bound in compat.py the way the translator assumes" % name, fn)
    return True


class Module:
    """One parsed source file: classes, their bases and function definitions."""

    def __init__(self, fn):
        self.fn, self.text = fn, open(os.path.join(REPO, fn), encoding="utf-8").read()
        self.tree = ast.parse(self.text)
        self.classes = {c.name: c for c in self.tree.body if isinstance(c, ast.ClassDef)}
        self.imports = {(a.asname or a.name): "%s.%s" % (n.module, a.name) for n in self.tree.body
                        if isinstance(n, ast.ImportFrom) for a in n.names}

    @staticmethod
    def lambda_property(st, name):
        """class-level `name = property(lambda self: e, ...)` as the getter `def name(self): return e`, else None"""
        if not (isinstance(st, ast.Assign) and len(st.targets) == 1 and isinstance(st.targets[0], ast.Name) and st.targets[0].id == name
                and isinstance(st.value, ast.Call) and dotted(st.value.func) == "property" and st.value.args
                and isinstance(st.value.args[0], ast.Lambda)):
            return None
        lam = st.value.args[0]
        f = ast.FunctionDef(name=name, args=lam.args, body=[ast.copy_location(ast.Return(value=lam.body), lam)], decorator_list=[])
        ast.copy_location(f, st)
        return ast.fix_missing_locations(f)

    def named_property(self, c, st, name):
        """class-level `name = property(_getter, ...)` with `_getter` a plain method of the same class: that method, else None"""
        if not (isinstance(st, ast.Assign) and len(st.targets) == 1 and isinstance(st.targets[0], ast.Name) and st.targets[0].id == name
                and isinstance(st.value, ast.Call) and dotted(st.value.func) == "property" and st.value.args
                and isinstance(st.value.args[0], ast.Name) and not any(k.arg == "fget" for k in st.value.keywords)):
            return None
        g = [f for f in c.body if isinstance(f, ast.FunctionDef) and f.name == st.value.args[0].id]
        binds = [n for x in c.body for n in ([x] if isinstance(x, (ast.FunctionDef, ast.ClassDef)) else ast.walk(x))
                 if (isinstance(n, ast.Name) and n.id == st.value.args[0].id and isinstance(n.ctx, ast.Store))
                 or (isinstance(n, (ast.FunctionDef, ast.ClassDef)) and n.name == st.value.args[0].id)]
        return g[0] if len(g) == 1 and len(binds) == 1 and not g[0].decorator_list else None

    def lookup(self, cls, name):
        """(defining class, FunctionDef, is_property) of attribute `name` of class `cls` (depth-first through the bases)."""
        c = self.classes.get(cls)
        if c is None:
            return None
        fs = [f for f in c.body if isinstance(f, ast.FunctionDef) and f.name == name
              and not any(isinstance(d, ast.Attribute) and d.attr in ("setter", "deleter") for d in f.decorator_list)]
        lam = [(st, self.lambda_property(st, name) or self.named_property(c, st, name)) for st in c.body]
        lam = [(st, f) for st, f in lam if f is not None]
        # any other binding of the name in the class body (alias assignment, definition under if/try, ...) is not understood
        other = [n for st in c.body if st not in fs and not (isinstance(st, ast.FunctionDef) and st.name == name)
                 and not any(st is l for l, _ in lam)
                 for n in ([st] if isinstance(st, ast.FunctionDef) else ast.walk(st))
                 if (isinstance(n, ast.Name) and n.id == name and isinstance(n.ctx, ast.Store))
                 or (isinstance(n, (ast.FunctionDef, ast.ClassDef)) and n.name == name and n is not st)]
        if len(fs) + len(lam) > 1 or other:
            bad((fs[1:] + [f for _, f in lam] + other)[-1], "%s.%s is bound more than once or not by a plain def" % (cls, name))
        if lam:
            return cls, lam[0][1], True
        if fs:
            decs = [dotted(d) for d in fs[0].decorator_list]
            if decs not in ([], ["property"]):
                bad(fs[0], "unsupported decorator on %s.%s" % (cls, name))
            return cls, fs[0], decs == ["property"]
        for b in c.bases:
            r = self.lookup(dotted(b), name)
            if r:
                return r
        return None

    def function(self, name):
        """the module-level `def name`, which must be the only top-level binding of that name"""
        binds = [n for st in self.tree.body
                 for n in ([st] if isinstance(st, (ast.FunctionDef, ast.ClassDef)) else ast.walk(st))
                 if (isinstance(n, (ast.FunctionDef, ast.ClassDef)) and n.name == name)
                 or (isinstance(n, ast.Name) and n.id == name and isinstance(n.ctx, ast.Store))
                 or (isinstance(n, ast.alias) and (n.asname or n.name) == name)]
        if len(binds) != 1 or not isinstance(binds[0], ast.FunctionDef) or binds[0].decorator_list:
            bad(binds[-1] if binds else None, "%s is not bound exactly once, by a plain top-level def" % name)
        return binds[0]

    def toplevel(self, name):
        return any((isinstance(n, (ast.FunctionDef, ast.ClassDef)) and n.name == name)
                   or (isinstance(n, ast.Name) and n.id == name and isinstance(n.ctx, ast.Store))
                   or (isinstance(n, ast.alias) and (n.asname or n.name) == name)
                   for st in self.tree.body for n in ([st] if isinstance(st, (ast.FunctionDef, ast.ClassDef)) else ast.walk(st)))

    def ancestors(self, cls):
        out = [cls]
        for b in (self.classes[cls].bases if cls in self.classes else []):
            out += self.ancestors(dotted(b))
        return out


class Loop:
    """One translated loop: a Fixpoint emitted before the definition of its function."""

    def __init__(self, name, node, iswhile, params, rty, ir, outcome, elem=None, target=None, lret=False, israng=False):
        self.name, self.node, self.iswhile, self.params, self.rty, self.ir, self.outcome = name, node, iswhile, params, rty, ir, outcome
        self.elem, self.target, self.lret, self.israng = elem, target, lret, israng

    def text(self, fn):
        ps = lambda xs: "".join(" (%s : %s)" % (cn, unparen(coqty(ty, self.node))) for cn, ty in xs)
        rt = coqty(self.rty, self.node)
        if self.lret:           # a loop with `return` in its body: inl <the function's result> | inr <the variables read afterwards>
            rt = "(%s + %s)" % (coqty(fn.retkind, self.node), rt)
        rt = "outcome " + rt if self.outcome else unparen(rt)
        where = "%s: %s, loop %s (`%s`), lines %d-%d" % (fn.mod.fn, fn.what(), self.name.rsplit("loop", 1)[1],
                                                         "while" if self.iswhile else "for", self.node.lineno, self.node.end_lineno)
        if self.iswhile:
            return ("(* %s; one iteration per unit of fuel *)\nFixpoint %s (fuel : nat)%s : %s :=\n  match fuel with\n"
                    "  | O => Raise OutOfFuel\n  | S fuel' =>\n    %s\n  end.\n"
                    % (where, self.name, ps(self.params), rt, fn.render(self.ir, "    ", self.outcome)))
        inv, car = self.params
        if self.israng:
            return ("(* %s; one iteration per unit of `fuel` = the length of the range *)\nFixpoint %s%s (fuel : nat)%s : %s :=\n"
                    "  match fuel with\n  | O =>\n    %s\n  | S fuel' =>\n    %s\n  end.\n"
                    % (where, self.name, ps(inv), ps(car), rt, fn.render(self.ir[0], "    ", self.outcome),
                       fn.render(self.ir[1], "    ", self.outcome)))
        return ("(* %s; structural on the remaining elements *)\nFixpoint %s%s (xs : list %s)%s : %s :=\n  match xs with\n"
                "  | [] =>\n    %s\n  | %s :: xs' =>\n    %s\n  end.\n"
                % (where, self.name, ps(inv), coqty(self.elem, self.node), ps(car), rt,
                   fn.render(self.ir[0], "    ", self.outcome), self.target, fn.render(self.ir[1], "    ", self.outcome)))


class Fn:
    """Translation of one method for one receiver class, or of one module-level function (recv None)."""

    def __init__(self, tr, recv, name, ptypes):
        self.tr, self.recv, self.name, self.mod = tr, recv, name, tr.mod
        self.file = tr.out or (FILE_OF.get(name, FILES[0]) if recv is None else FILES[0])
        self.cname = tr.mangle(recv, name)
        self.pyname = pyname = name.partition(":")[0]
        if recv is None:
            self.owner, self.f, self.is_prop = None, self.mod.function(pyname), False
        else:
            r = self.mod.lookup(recv, pyname)
            if r is None:
                bad(None, "%s.%s not found" % (recv, pyname))
            self.owner, self.f, self.is_prop = r
        self.statevars, self.mutating, self.valued = [], False, True
        if recv in STATEVARS:
            self.f = self.state_as_locals(self.f)
        a = self.f.args
        if a.vararg or a.kwarg or a.kwonlyargs or a.posonlyargs or (recv is not None and (not a.args or a.args[0].arg != "self")):
            bad(self.f, "unsupported signature")
        if any(not isinstance(d, ast.Constant) for d in a.defaults):
            bad(self.f, "non-constant default argument")
        self.attrs = {}
        if recv is not None:
            self.attrs = {"self._module.version": ("int", "ver"),
                          "self._module.width": ("int", "w"), "self._module.max_int": ("int", "(max_int_w w)")}
        for x, (ty, term) in UNIT_NAMES.get(tr.out, {}).items():
            if self.mod.imports.get(x) == "netaddr.compat." + x and compat_ok(x):
                self.attrs[x] = (ty, term)
        if recv == "EUI":                                # an EUI object: (_module.version, _value)
            self.attrs = {"self._module.version": ("int", "ver")}
        for m, _ in STRATEGY + UNIT_STRATEGY.get(tr.out, ()):
            if self.mod.imports.get("_" + m) == "netaddr.strategy." + m:
                for c in ("width", "version", "max_int"):
                    self.attrs["_%s.%s" % (m, c)] = ("int", "src_%s_%s" % (m, c))
        if recv == "IPRange":
            self.attrs.update({"self._start": ("obj", ("ver", "w", "s", "(ver, s)")), "self._end": ("obj", ("ver", "w", "e", "(ver, e)")),
                               "self._start._value": ("int", "s"), "self._end._value": ("int", "e")})
        elif recv is not None:
            self.attrs["self._value"] = ("int", "v")
        if recv == "IPNetwork":
            self.attrs["self._prefixlen"] = ("int", "p")
        self.used, self.pre, self.nohoist, self.nfresh, self.size = {}, [], 0, 0, 0
        self.deps, self.depfns, self.loops, self.loopmemo, self.lrets = set(), [], [], {}, []
        self.assumes_inv = False        # some shift count built from object state only was taken as non-negative (class invariant)
        self.freshbind = set()          # assignments `x = <constructor result>`: x holds an object nobody else can see
        loops = sorted((n for n in ast.walk(self.f) if isinstance(n, (ast.For, ast.While))), key=lambda n: (n.lineno, n.col_offset))
        self.loopno = {id(n): i + 1 for i, n in enumerate(loops)}
        env = {"@taint": frozenset(), "@mut": None, "@break": None, "@continue": None, "@raw": frozenset(), "@lret": False}
        self.params, self.ptypes_declared = [], set(ptypes)
        for attr, ty in STATEVARS.get(recv, ()):         # the object's state, passed like a leading parameter
            ty = parse_type(ty)
            cn = self.coqname(self.f, "self" + attr)
            env["self" + attr] = (ty, cn)
            self.statevars.append((cn, ty))
        for x in a.args[(0 if recv is None else 1):]:
            if recv is None and x.arg not in ptypes:
                bad(x, "parameter %s of %s has no declared type in FUNCS" % (x.arg, name))
            ty = parse_type(ptypes.get(x.arg, "int"))
            cn = self.coqname(x, x.arg)
            env[x.arg] = (ty, cn)
            env["@taint"] |= {x.arg}
            self.params.append((cn, ty))
        body = self.f.body
        if body and isinstance(body[0], ast.Expr) and isinstance(body[0].value, ast.Constant) and isinstance(body[0].value.value, str):
            body = body[1:]
        self.ir = self.block(body, env, lambda e: self.leaf(e, "none", None), [])
        self.finish()

    # ---- object state read and written like locals (STATEVARS)
    def method_mutates(self, name, seen=()):
        """does method `name` of the receiver class assign a state attribute: directly, by a method call on it other than the
        pure ones, or through another method of self?"""
        r = self.mod.lookup(self.recv, name)
        if r is None:
            return False
        paths = {"self." + a for a, _ in STATEVARS[self.recv]}
        for n in ast.walk(r[1]):
            if isinstance(n, ast.Attribute) and dotted(n) in paths and not isinstance(n.ctx, ast.Load):
                return True
            if isinstance(n, ast.Call) and isinstance(n.func, ast.Attribute):
                if dotted(n.func.value) in paths and n.func.attr not in ("union", "copy"):
                    return True
                if (dotted(n.func) == "self." + n.func.attr and n.func.attr not in seen + (name,)
                        and self.method_mutates(n.func.attr, seen + (name,))):
                    return True
        return False

    def state_as_locals(self, f):
        """a copy of method f in which the state attributes are local names: `self._a` -> name `self_a` (a leading parameter);
        `self.m(x)` -> `self.m(<state names>, x)`; statement `self.m(x)` of a mutating m -> `<state names> = self.m(..)`;
        in a mutating method `return e` -> `return (<state names>, e)`, `return` / end of body -> `return <state names>`."""
        import copy
        f, fn = copy.deepcopy(f), self
        names = ["self" + a for a, _ in STATEVARS[self.recv]]
        paths = {"self." + a: "self" + a for a, _ in STATEVARS[self.recv]}
        self.mutating = self.method_mutates(self.pyname)
        isnone = lambda v: v is None or (isinstance(v, ast.Constant) and v.value is None)
        rets = [n for n in ast.walk(f) if isinstance(n, ast.Return)]
        self.valued = any(not isnone(n.value) for n in rets)
        if self.mutating and self.valued and any(isnone(n.value) for n in rets):
            bad(f, "method that assigns the object state returns a value on some paths only")

        def state(ctx, at):
            xs = [ast.copy_location(ast.Name(id=x, ctx=ctx()), at) for x in names]
            return xs[0] if len(xs) == 1 else ast.copy_location(ast.Tuple(elts=xs, ctx=ctx()), at)

        class T(ast.NodeTransformer):
            def visit_Attribute(self, n):
                if dotted(n) in paths:
                    return ast.copy_location(ast.Name(id=paths[dotted(n)], ctx=n.ctx), n)
                return self.generic_visit(n)

            def visit_Call(self, n):
                own = isinstance(n.func, ast.Attribute) and dotted(n.func) == "self." + n.func.attr
                n = self.generic_visit(n)
                if own:
                    n.args = [ast.copy_location(ast.Name(id=x, ctx=ast.Load()), n) for x in names] + n.args
                return n

            def visit_Expr(self, st):
                v = st.value
                if (isinstance(v, ast.Call) and isinstance(v.func, ast.Attribute) and dotted(v.func) == "self." + v.func.attr
                        and fn.method_mutates(v.func.attr)):
                    v = self.visit(v)
                    v.state_call = True
                    return ast.copy_location(ast.Assign(targets=[state(ast.Store, st)], value=v), st)
                return self.generic_visit(st)

            def visit_Return(self, st):
                st = self.generic_visit(st)
                if fn.mutating:
                    st.value = (ast.copy_location(ast.Tuple(elts=[state(ast.Load, st), st.value], ctx=ast.Load()), st) if fn.valued
                                else state(ast.Load, st))
                return st
        f = T().visit(f)
        if self.mutating and not self.valued and not isinstance(f.body[-1], (ast.Return, ast.Raise)):
            f.body.append(ast.copy_location(ast.Return(value=state(ast.Load, f.body[-1])), f.body[-1]))
            f.body[-1].lineno = f.body[-1].end_lineno = f.end_lineno
        return ast.fix_missing_locations(f)

    # ---- names
    def coqname(self, node, name):
        cn = name + "_" if (name in RESERVED or re.fullmatch(r"h\d+", name) or name.startswith("src_")) else name
        if not re.fullmatch(r"[A-Za-z_][A-Za-z0-9_]*", cn) or cn == "_":
            bad(node, "identifier %r" % name)
        if self.used.setdefault(cn, name) != name:
            bad(node, "identifier clash on %s" % cn)
        return cn

    def fresh(self):
        self.nfresh += 1
        return "h%d" % self.nfresh

    @staticmethod
    def objvar(x):
        """an IPAddress object held in variable x : Z * Z -> (version, width, value, the pair itself)"""
        return ("(fst %s)" % x, "(width (fst %s))" % x, "(snd %s)" % x, x)

    def hoist(self, node, item):
        if self.nohoist:
            bad(node, "sub-expression that can raise under and/or/conditional expression")
        self.pre.append(item)

    def take_pre(self):
        pre, self.pre = self.pre, []
        return pre

    @staticmethod
    def wrap(pre, ir):
        for it in reversed(pre):
            ir = ("if", it[1], ("raise", it[2]), ir) if it[0] == "guard" else ("bind", it[1], it[2], ir)
        return ir

    def state(self, env):
        """the receiver's state parameters as they are now (after `self._value = e` the new value is passed on)"""
        if self.recv in STATEVARS:
            return " ".join(env["self" + attr][1] for attr, _ in STATEVARS[self.recv])
        inv = {v: k for k, v in FIELD.items()}
        return " ".join(env[inv[x]][1] if inv.get(x) in env else x for x in STATE[self.recv])

    def tainted(self, node, env):
        return any(isinstance(n, ast.Name) and n.id in env["@taint"] for n in ast.walk(node))

    def snapshot(self):
        return dict(self.used), self.nfresh, self.size, list(self.pre), self.nohoist, list(self.loops), dict(self.loopmemo)

    def restore(self, snap):
        self.used, self.nfresh, self.size, self.pre, self.nohoist, self.loops, self.loopmemo = snap

    # ---- calls of other translated definitions and constructors
    def generated(self, node, recv, name, state, args):
        """use of translated definition (recv, name) on receiver state `state` with arguments [(type, term)]"""
        d = self.tr.get(recv, name, node)
        if FILES.index(d.file) > FILES.index(self.file):
            bad(node, "%s lives in %s, which comes after %s" % (d.cname, d.file, self.file))
        self.deps.add((recv, name))
        self.depfns.append(d)
        self.assumes_inv |= d.assumes_inv
        if len(args) != len(d.params):
            bad(node, "unsupported argument list for %s" % d.cname)
        for (ty, _), (_, pty) in zip(args, d.params):
            unify(node, ty, pty, "argument of %s" % d.cname)
        term = "(%s)" % " ".join([d.cname] + ([state] if state else []) + [t for _, t in args])
        if d.optional and d.kind == "bool" and getattr(self, "opt_ok", None) == id(node):
            return ("out", "optbool", term) if d.outcome else ("optbool", term)
        if d.optional:
            bad(node, "use of %s, which may return None" % d.cname)
        if d.mutating and not getattr(node, "state_call", False):
            bad(node, "call of %s, which assigns the object state, inside an expression" % d.cname)
        return ("out", d.kind, term) if d.outcome else (d.kind, term)

    def ctor(self, node, cls, env):
        kw = {k.arg: k.value for k in node.keywords}
        if None in kw or len(kw) != len(node.keywords):
            bad(node, "unsupported keyword arguments")
        if cls in CTOR_AS_ARG:
            if kw or len(node.args) != 1:
                bad(node, "%s constructor form other than (int)" % cls)
            return ("int", self.int_(node.args[0], env))             # the object is represented by the integer it is made from
        if cls == "EUI":
            args = list(node.args) + ([kw.pop("version")] if "version" in kw and len(node.args) == 1 else [])
            if kw or len(args) != 2:
                bad(node, "EUI constructor form other than (int, version)")
            val, ver = self.int_(args[0], env), self.int_(args[1], env)
            return ("out", "eui", "(mk_eui %s %s)" % (ver, val))
        if cls == "IPAddress":
            args = list(node.args) + ([kw.pop("version")] if "version" in kw and len(node.args) == 1 else [])
            if kw or len(args) != 2:
                bad(node, "IPAddress constructor form other than (int, version)")
            val, ver = self.int_(args[0], env), self.int_(args[1], env)
            return ("out", "obj", "(mk_addr %s %s)" % (ver, val))
        if cls == "IPNetwork" and not kw and len(node.args) == 1 and not isinstance(node.args[0], ast.Tuple):
            ty, t = self.ex(node.args[0], env)          # copy constructor, default flags: the identity on the model
            if ty != "net":
                bad(node, "IPNetwork(x) of %s (only an IPNetwork-valued x is the identity)" % show(ty))
            return ("net", t)
        if cls == "IPNetwork":
            if set(kw) != {"version"} or len(node.args) != 1 or not isinstance(node.args[0], ast.Tuple) or len(node.args[0].elts) != 2:
                bad(node, "IPNetwork constructor form other than ((int, int), version=...) or (network)")
            a, b = [self.int_(x, env) for x in node.args[0].elts]
            return ("out", "net", "(mk_net %s %s %s)" % (self.int_(kw["version"], env), a, b))
        bad(node, "constructor of %s" % cls)

    def objattr(self, node, head, tail, env):
        """attribute path `tail` of the IPNetwork-valued variable or refined operand `head`"""
        ty, t = env[head]
        if ty == "net":
            cls, ver, fields = "IPNetwork", "(nver %s)" % t, {"_value": "(nval %s)" % t, "_prefixlen": "(nplen %s)" % t}
            state = "%s (width %s) (nval %s) (nplen %s)" % (ver, ver, t, t)
        else:
            kind, f = ty[1], ty[2]
            if kind not in KINDCLASS:
                bad(node, "attribute of an operand that is no BaseIP object")
            cls, ver = KINDCLASS[kind], f["ver"]
            fields = {"OAddr": {"_value": "v"}, "ONet": {"_value": "v", "_prefixlen": "p"},
                      "ORng": {"_start._value": "s", "_end._value": "e"}}[kind]
            fields = {k: f[x] for k, x in fields.items()}
            state = " ".join([ver, "(width %s)" % ver] + [f[x] for x in dict(OPERAND)[kind][1:]])
        if tail in ("_module.version", "_module.width", "_module.max_int"):
            return ("int", {"version": ver, "width": "(width %s)" % ver, "max_int": "(max_int_w (width %s))" % ver}[tail[8:]])
        if tail in fields:
            return ("int", fields[tail])
        r = self.tr.modof(cls).lookup(cls, tail) if "." not in tail else None
        if r and r[2]:
            if head in env["@raw"] and self.tr.get(cls, tail, node).assumes_inv:
                # the object's _prefixlen was assigned directly (no setter): the invariant the callee's translation relies on
                # is tested here; where it fails Python raises from inside the property, which is not translated
                self.hoist(node, ("guard", "(negb ((0 <=? (nplen %s)) && ((nplen %s) <=? (width (nver %s)))))" % (t, t, t), "Unsupported"))
            return self.generated(node, cls, tail, state, [])
        bad(node, "attribute %s of %s %s" % (tail, "an" if cls[0] == "I" else "a", cls))

    def callfn(self, node, name, env):
        if node.keywords:
            bad(node, "keyword arguments in a call of %s" % name)
        return self.generated(node, None, name, "", [self.ex(x, env) for x in node.args])

    def isinst(self, node, kind, cls):
        """isinstance(<operand of this kind>, cls), decided from the class hierarchy of the parsed module"""
        if cls not in self.mod.classes or any(c not in self.mod.classes for c in KINDCLASS.values()):
            bad(node, "isinstance against %s, which is not a class of this module" % cls)
        if kind == "OOther":
            return False
        if cls in self.mod.ancestors(KINDCLASS[kind]):
            return True
        if KINDCLASS[kind] in self.mod.ancestors(cls):
            bad(node, "isinstance against %s, a subclass of %s: not decided by the operand kind" % (cls, KINDCLASS[kind]))
        return False

    def int_(self, node, env):
        ty, t = self.ex(node, env)
        if ty != "int":
            bad(node, "int expression expected, got %s" % show(ty))
        return t

    def bool_(self, node, env):
        self.opt_ok = id(node) if isinstance(node, ast.Call) else None      # `if self.m():` / `not self.m()` with m() -> None | bool
        ty, t = self.ex(node, env)
        self.opt_ok = None
        if ty == "optbool":
            return "(py_truthy %s)" % t                 # the truth value of None is False
        if is_list(ty):
            return "(py_nonempty %s)" % t               # truth value of a list
        if ty != "bool":
            bad(node, "bool expression expected, got %s" % show(ty))
        return t

    # ---- expressions: -> (type, term); rhs() may also return ("out", kind, term) for a call that can raise
    def ex(self, node, env):
        r = self.rhs(node, env)
        if r[0] != "out":
            return r
        if r[1] != "obj" and not is_value(r[1]):
            bad(node, "%s result used inside an expression" % show(r[1]))
        h = self.fresh()
        self.hoist(node, ("bind", h, r[2]))
        return ("obj", self.objvar(h)) if r[1] == "obj" else (r[1], h)

    def rhs(self, node, env):
        self.size += 1
        if self.size > 4000:
            bad(node, "translation too large")
        if isinstance(node, ast.Constant):
            if node.value is None:
                return ("none", None)
            if isinstance(node.value, bool):
                return ("bool", "true" if node.value else "false")
            if isinstance(node.value, int):
                return ("int", literal(node, self.mod.text))
            if isinstance(node.value, str) and all(32 <= ord(c) < 127 for c in node.value):
                return ("str", "\"%s\"%%string" % node.value.replace('"', '""'))
            bad(node, "constant %r" % type(node.value).__name__)
        if isinstance(node, ast.Name):
            if node.id in env:
                if env[node.id][0] == "sarg":
                    bad(node, "use of %s before its isinstance(_, _int_type) guard" % node.id)
                return env[node.id]
            if node.id in ("IPAddress", "IPNetwork") and (node.id in self.mod.classes
                                                         or self.mod.imports.get(node.id) == "netaddr.ip." + node.id):
                return ("cls", node.id)
            if node.id in CTOR_AS_ARG and node.id in self.mod.classes:
                return ("cls", node.id)
            if node.id in self.attrs and not node.id.startswith("self"):
                return self.attrs[node.id]
            if node.id in UNIT_TABLES.get(self.tr.out, {}) and self.mod.toplevel(node.id):
                return (parse_type(UNIT_TABLES[self.tr.out][node.id]), node.id)
            bad(node, "unknown (or possibly unbound) name %s" % node.id)
        if isinstance(node, ast.Attribute):
            path = dotted(node)
            if path in env:
                return env[path]
            if path in self.attrs:
                return self.attrs[path]
            if path == "self.__class__" and self.recv:
                return ("cls", self.recv)
            head, _, tail = (path or "").partition(".")
            if head in env and env[head][0] == "dialect" and tail in ("word_size", "num_words"):
                return ("int", "(%s %s)" % ("fst" if tail == "word_size" else "snd", env[head][1]))
            if head in env and env[head][0] == "eui":
                t = env[head][1]
                if tail in ("_value", "_module.version"):
                    return ("int", "(%s %s)" % ("evalue" if tail == "_value" else "ever", t))
                r = self.mod.lookup("EUI", tail) if "." not in tail else None
                if r and r[2]:
                    return self.generated(node, "EUI", tail, "(ever %s) (evalue %s)" % (t, t), [])
                bad(node, "attribute %s of an EUI" % tail)
            if head in env and (env[head][0] == "net" or env[head][0][0] == "opnd"):
                return self.objattr(node, head, tail, env)
            if self.recv and path and path.startswith("self.") and path.count(".") == 1:
                r = self.mod.lookup(self.recv, node.attr)
                if r and r[2]:
                    return self.generated(node, self.recv, node.attr, self.state(env), [])
            bad(node, "attribute %s" % (path or "of a computed object"))
        if isinstance(node, ast.UnaryOp):
            if isinstance(node.op, ast.USub):
                return ("int", "(- %s)" % self.int_(node.operand, env))
            if isinstance(node.op, ast.Not):
                return ("bool", "(negb %s)" % self.bool_(node.operand, env))
            bad(node, "unary operator %s" % type(node.op).__name__)
        if isinstance(node, ast.BinOp):
            if type(node.op) not in ARITH:
                bad(node, "operator %s" % type(node.op).__name__)
            (ta, a), (tb, b) = self.ex(node.left, env), self.ex(node.right, env)
            if isinstance(node.op, ast.Add) and is_list(ta) and is_list(tb):
                unify(node, ta, tb, "list concatenation")
                return (("list", ta[1]), "(%s ++ %s)" % (a, b))
            if ta != "int" or tb != "int":
                bad(node, "int expression expected, got %s" % show(tb if ta == "int" else ta))
            nonneg_lit = isinstance(node.right, ast.Constant) and isinstance(node.right.value, int) and node.right.value >= 0
            if isinstance(node.op, (ast.LShift, ast.RShift)) and not nonneg_lit and self.tainted(node.right, env):
                self.hoist(node, ("guard", "(%s <? 0)" % b, "ValueError"))      # CPython: negative shift count
            elif isinstance(node.op, (ast.LShift, ast.RShift, ast.Pow)) and not nonneg_lit:
                self.assumes_inv = True                                         # class invariant 0 <= prefixlen <= width
            if isinstance(node.op, ast.Pow) and not nonneg_lit and self.tainted(node.right, env):
                self.hoist(node, ("guard", "(%s <? 0)" % b, "Unsupported"))     # a float for a negative exponent: outside the model
            if isinstance(node.op, (ast.FloorDiv, ast.Mod)) and not (isinstance(node.right, ast.Constant) and node.right.value != 0):
                bad(node, "// or % by a non-literal (ZeroDivisionError not modelled)")
            return ("int", ARITH[type(node.op)] % (a, b))
        if isinstance(node, ast.BoolOp):
            first = self.bool_(node.values[0], env)
            self.nohoist += 1
            rest = [self.bool_(x, env) for x in node.values[1:]]
            self.nohoist -= 1
            return ("bool", "(%s)" % (" && " if isinstance(node.op, ast.And) else " || ").join([first] + rest))
        if isinstance(node, ast.Compare) and len(node.ops) == 1 and isinstance(node.ops[0], (ast.Eq, ast.Is)) and dotted(
                node.left) == "self._module" and "self._module.version" in self.attrs and isinstance(node.comparators[0], ast.Name) and (
                node.comparators[0].id + ".version") in self.attrs and node.comparators[0].id not in env:
            # self._module == _m / is _m: the strategy modules are told apart by their `version` constants
            return ("bool", "(%s =? %s)" % (self.attrs["self._module.version"][1], self.attrs[node.comparators[0].id + ".version"][1]))
        if (isinstance(node, ast.Compare) and len(node.ops) == 1 and isinstance(node.ops[0], ast.In) and dotted(node.left) == "self"
                and "self" not in env and self.recv in SELF_OPERAND and self.tr.out in UNIT_PREAMBLE):
            ty, t = self.ex(node.comparators[0], env)              # self in T for a table row T
            if ty != "row":
                bad(node, "`self in` something other than a table row")
            for cls in ("IPNetwork", "IPRange"):                      # src_contains_row uses both translated __contains__
                d = self.tr.get(cls, "__contains__", node)
                self.deps.add((cls, "__contains__"))
                self.depfns.append(d)
            return ("out", "bool", "(src_contains_row %s %s)" % (t, SELF_OPERAND[self.recv]))
        if isinstance(node, ast.Compare) and len(node.ops) == 1 and isinstance(node.ops[0], ast.In) and isinstance(
                node.comparators[0], ast.Attribute) and isinstance(node.comparators[0].value, ast.Name) and (
                node.comparators[0].value.id in self.mod.classes and node.comparators[0].value.id not in env):
            # e in C.ATTR for a class-level tuple of int literals
            x = self.int_(node.left, env)
            return ("bool", "(existsb (Z.eqb %s) [%s])" % (x, "; ".join(self.tr.class_tuple(node.comparators[0]))))
        if isinstance(node, ast.Compare) and len(node.ops) == 1 and isinstance(node.ops[0], (ast.Eq, ast.NotEq)):
            snap, pre0 = self.snapshot(), list(self.pre)
            (ta, a), (tb, b) = self.ex(node.left, env), self.ex(node.comparators[0], env)
            if ta == "str" and tb == "str":
                return ("bool", ("(String.eqb %s %s)" if isinstance(node.ops[0], ast.Eq) else "(negb (String.eqb %s %s))") % (a, b))
            self.restore(snap)
            self.pre = pre0
        if isinstance(node, ast.Compare):
            xs = [self.int_(x, env) for x in [node.left] + node.comparators[:1]]
            self.nohoist += 1                                   # a <= b <= c evaluates c only if a <= b
            xs += [self.int_(x, env) for x in node.comparators[1:]]
            self.nohoist -= 1
            if any(type(o) not in CMP for o in node.ops):
                bad(node, "comparison operator")
            cs = [CMP[type(o)] % (xs[i], xs[i + 1]) for i, o in enumerate(node.ops)]
            return ("bool", cs[0] if len(cs) == 1 else "(%s)" % " && ".join(cs))
        if isinstance(node, ast.IfExp):
            c = self.bool_(node.test, env)
            self.nohoist += 1
            (ta, a), (tb, b) = self.ex(node.body, env), self.ex(node.orelse, env)
            self.nohoist -= 1
            if ta != tb or ta not in ("int", "bool"):
                bad(node, "conditional expression of types %s/%s" % (show(ta), show(tb)))
            return (ta, "(if %s then %s else %s)" % (c, a, b))
        if isinstance(node, ast.List):
            cell, terms = Cell(), []
            for x in node.elts:
                ty, t = self.ex(x, env)
                if not is_value(ty):
                    bad(x, "list element of kind %s" % show(ty))
                unify(x, ("list", Cell(ty)), ("list", cell), "list element")
                terms.append(t)
            return (("list", cell), "[%s]" % "; ".join(terms))
        if isinstance(node, ast.Subscript):
            return self.subscript(node, env)
        if isinstance(node, ast.Call):
            return self.call(node, env)
        if isinstance(node, ast.ListComp):
            return self.listcomp(node, env)
        bad(node, "expression %s" % type(node).__name__)

    def builtin_call(self, node, f, env, nargs):
        """is node the call f(<nargs positional arguments>) of the builtin f (not shadowed by a local or a module-level name)?"""
        return (isinstance(node, ast.Call) and isinstance(node.func, ast.Name) and node.func.id == f and f not in env
                and not self.mod.toplevel(f) and not node.keywords and len(node.args) == nargs)

    def listexpr(self, node, env):
        """a list-valued expression that is consumed at once (for / enumerate / tuple): reversed(l) is rev l there"""
        if self.builtin_call(node, "reversed", env, 1):
            ty, t = self.ex(node.args[0], env)
            if not is_list(ty):
                bad(node, "reversed() of %s" % show(ty))
            return (("list", ty[1]), "(rev %s)" % t)
        return self.ex(node, env)

    def elem_eqb(self, node, ty):
        """the equality (hence hashing) of the elements of a set: IPNetwork.__eq__ compares key() = (version, first, last)"""
        e = ty[1].find().t
        if e == "net":
            return "net_key_eqb"
        if e == "int":
            return "Z.eqb"
        bad(node, "set of %s" % show(e or "?"))

    def listcomp(self, node, env):
        """[y for x in xs for y in f(x)] -> py_flat_map_o (fun x => f x) xs (the lists f(x) one after the other; the first
        exception wins)"""
        g = node.generators
        if not (len(g) == 2 and all(not x.ifs and not x.is_async and isinstance(x.target, ast.Name) for x in g)
                and isinstance(node.elt, ast.Name) and node.elt.id == g[1].target.id and g[0].target.id != g[1].target.id
                and g[0].target.id not in env and g[1].target.id not in env):
            bad(node, "list comprehension other than [y for x in xs for y in f(x)] with fresh x, y")
        ty, t = self.ex(g[0].iter, env)
        elem = ty[1].find().t if is_list(ty) else None
        if elem is None:
            bad(node, "comprehension over %s" % show(ty))
        cn, lenv = self.bind_local(g[0].target, g[0].target.id, elem, env, g[0].iter)
        saved, self.pre = self.pre, []
        r = self.rhs(g[1].iter, lenv)
        inner, self.pre = self.pre, saved
        if inner:
            bad(node, "comprehension whose inner iterable is more than one call")
        rty = r[1] if r[0] == "out" else r[0]
        if not is_list(rty):
            bad(node, "comprehension whose inner iterable is %s" % show(rty))
        return ("out", ("list", rty[1]), "(py_flat_map_o (fun %s => %s) %s)" % (cn, r[2] if r[0] == "out" else "(Ok %s)" % r[1], t))

    def sorted_(self, node, env):
        """sorted(xs, key=lambda x: <int>, reverse=True) -> py_sorted_desc: stable, descending by key; for a set `xs` the order
        among equal keys is the (unspecified) iteration order = the order of the representing list"""
        kw = {k.arg: k.value for k in node.keywords}
        lam = kw.get("key")
        if not (len(node.args) == 1 and set(kw) == {"key", "reverse"} and len(kw) == len(node.keywords)
                and isinstance(kw["reverse"], ast.Constant) and kw["reverse"].value is True and isinstance(lam, ast.Lambda)
                and len(lam.args.args) == 1 and not (lam.args.defaults or lam.args.vararg or lam.args.kwarg or lam.args.kwonlyargs
                                                     or lam.args.posonlyargs) and lam.args.args[0].arg not in env):
            bad(node, "sorted() other than sorted(xs, key=lambda x: <int>, reverse=True)")
        ty, t = self.ex(node.args[0], env)
        elem = ty[1].find().t if (is_list(ty) or is_set(ty)) else None
        if elem is None:
            bad(node, "sorted() of %s" % show(ty))
        cn, lenv = self.bind_local(lam, lam.args.args[0].arg, elem, env, node.args[0])
        self.nohoist += 1
        key = self.int_(lam.body, lenv)
        self.nohoist -= 1
        return (("list", ty[1]), "(py_sorted_desc (fun %s => %s) %s)" % (cn, key, t))

    def subnet_list(self, node, env):
        """list(x.subnet(prefixlen[, count=c])) for an IPNetwork-valued x: IPNetwork.subnet is a generator and is not translated;
        the call becomes the prelude symbol py_list_subnet (the hand model of the generator, run to exhaustion)"""
        c = node.args[0]
        ty, t = self.ex(c.func.value, env)
        r = self.tr.modof("IPNetwork").lookup("IPNetwork", "subnet")
        if ty != "net" or not r or r[2] or [a.arg for a in r[1].args.args] != ["self", "prefixlen", "count", "fmt"] or [
                (d.value if isinstance(d, ast.Constant) else d) for d in r[1].args.defaults] != [None, None]:
            bad(node, "list(x.subnet(..)) on something other than an IPNetwork with subnet(self, prefixlen, count=None, fmt=None)")
        kw = {k.arg: k.value for k in c.keywords}
        if len(c.args) != 1 or not set(kw) <= {"count"} or len(kw) != len(c.keywords):
            bad(node, "x.subnet() with an argument list other than (prefixlen[, count=c])")
        prefix = self.int_(c.args[0], env)
        cty, ct = self.ex(kw["count"], env) if "count" in kw else ("none", None)
        if cty not in ("none", "int", "optint"):
            bad(node, "count=%s" % show(cty))
        count = "None" if cty == "none" else "(Some %s)" % ct if cty == "int" else ct
        return ("out", ("list", Cell("net")), "(py_list_subnet %s %s %s)" % (t, prefix, count))

    def subscript(self, node, env):
        ty, t = self.ex(node.value, env)
        sl = node.slice
        if isinstance(sl, ast.Slice) and ty == "str":
            k = const_int(sl.lower) if sl.lower is not None else None
            if k is None or k < 0 or sl.upper is not None or sl.step is not None:
                bad(node, "string slice other than s[k:] with a literal k >= 0")
            return ("str", "(py_str_from %d %s)" % (k, t))
        if isinstance(sl, ast.Slice):
            if sl.lower is None and sl.upper is None and const_int(sl.step) == -1 and is_list(ty):
                return (("list", ty[1]), "(rev %s)" % t)
            bad(node, "slice other than l[::-1] on a list")
        i = const_int(sl)
        if i is None:
            bad(node, "subscript with a non-literal index")
        n = len(t) if ty == ("seq",) else len(ty[1]) if isinstance(ty, tuple) and ty[0] == "tup" else None
        if n is None:
            bad(node, "subscript of %s (IndexError not modelled)" % show(ty))
        if not -n <= i < n:
            bad(node, "index %d out of range" % i)
        i %= n
        if ty == ("seq",):
            return t[i]
        return (ty[1][i], "(snd %s)" % ("(fst " * (n - 1 - i) + t + ")" * (n - 1 - i)) if i else "(fst " * (n - 1) + t + ")" * (n - 1))

    def call(self, node, env):
        f = node.func
        if self.builtin_call(node, "int", env, 2) and const_int(node.args[1]) == 2:
            ty, t = self.ex(node.args[0], env)              # int(s, 2): ValueError for text that is no binary literal
            if ty != "str":
                bad(node, "int(x, 2) of %s" % show(ty))
            return ("out", "int", "(py_int_o 2 %s)" % t)
        if isinstance(f, ast.Name) and f.id not in env and not self.mod.toplevel(f.id) and f.id in ("int", "bool", "min", "max", "iter"):
            if node.keywords or len(node.args) != (2 if f.id in ("min", "max") else 1):
                bad(node, "%s() with an unsupported argument list" % f.id)
            if f.id in ("min", "max"):
                return ("int", "(Z.%s %s %s)" % (f.id, self.int_(node.args[0], env), self.int_(node.args[1], env)))
            ty, t = self.ex(node.args[0], env)
            if f.id == "iter" and is_list(ty):
                return (("iter", ty[1]), t)
            if f.id == "int" and ty == "int":
                return ("int", t)
            if f.id == "int" and ty == "obj":                       # int(IPAddress object) = its __int__()
                return self.generated(node, "IPAddress", "__int__", " ".join(t[:3]), [])
            if f.id == "int" and ty == "eui":                       # int(EUI object) = its __int__()
                return self.generated(node, "EUI", "__int__", "(ever %s) (evalue %s)" % (t, t), [])
            if f.id == "bool" and ty in ("int", "bool"):
                return ("bool", "(negb (%s =? 0))" % t if ty == "int" else t)
            bad(node, "%s() of %s" % (f.id, show(ty)))
        if (isinstance(f, ast.Name) and f.id == "len" and "len" not in env and not self.mod.toplevel("len") and len(node.args) == 1
                and not node.keywords and isinstance(node.args[0], ast.Call) and dotted(node.args[0].func) == "_iter_range"
                and "_iter_range" not in env and self.mod.imports.get("_iter_range") == "netaddr.compat._iter_range"
                and compat_ok("_iter_range") and len(node.args[0].args) == 3 and not node.args[0].keywords):
            a, b, c = [self.int_(x, env) for x in node.args[0].args]     # len(range(a, b, c)): Model/PySlice.v (ValueError, OverflowError)
            return ("out", "int", "(py_range_len %s %s %s)" % (a, b, c))
        if (isinstance(f, ast.Attribute) and f.attr == "indices" and isinstance(f.value, ast.Name)
                and env.get(f.value.id, ("",))[0] == "slice" and len(node.args) == 1 and not node.keywords):
            a, b, c = self.fresh(), self.fresh(), self.fresh()           # slice.indices(length): Model/PySlice.v
            return ("out", ("tup", ("int", "int", "int")), "(let '(%s, %s, %s) := %s in py_slice_indices %s %s %s %s)" % (
                a, b, c, env[f.value.id][1], a, b, c, self.int_(node.args[0], env)))
        if isinstance(f, ast.Name) and f.id == "iter_iprange" and f.id not in env and f.id in [
                n.name for n in self.mod.tree.body if isinstance(n, ast.FunctionDef)]:
            g = self.mod.function("iter_iprange")      # a generator function: the call runs nothing, the object is its arguments
            if ([x.arg for x in g.args.args] != ["start", "end", "step"] or [const_int(d) for d in g.args.defaults] != [1]
                    or not any(isinstance(n, ast.Yield) for n in ast.walk(g)) or node.keywords or len(node.args) not in (2, 3)):
                bad(node, "iter_iprange is not the generator iter_iprange(start, end, step=1), or is called with keywords")
            (ta, a), (tb, b) = self.ex(node.args[0], env), self.ex(node.args[1], env)
            if ta != "obj" or tb != "obj":
                bad(node, "iter_iprange of something other than two IPAddress objects")
            step = self.int_(node.args[2], env) if len(node.args) == 3 else "1"
            return ("iterator", "(ItIprange %s %s %s %s %s)" % (a[0], a[2], b[0], b[2], step))
        if self.builtin_call(node, "bin", env, 1):
            return ("str", "(py_bin %s)" % self.int_(node.args[0], env))
        if isinstance(f, ast.Attribute) and f.attr in ("replace", "startswith") and not node.keywords and not (
                isinstance(f.value, ast.Name) and f.value.id not in env):
            ty, t = self.ex(f.value, env)
            args = [self.ex(x, env) for x in node.args]
            if ty != "str" or any(a[0] != "str" for a in args) or len(args) != (2 if f.attr == "replace" else 1):
                bad(node, "%s() on something other than strings" % f.attr)
            return ("str", "(replace %s %s %s)" % (args[0][1], args[1][1], t)) if f.attr == "replace" else (
                "bool", "(starts_with %s %s)" % (args[0][1], t))
        if (isinstance(f, ast.Attribute) and f.attr == "issuperset" and isinstance(f.value, ast.Name) and f.value.id not in env
                and len(node.args) == 1 and not node.keywords):
            ty, t = self.ex(node.args[0], env)              # CHARSET.issuperset(s) for a module-level frozenset of characters
            if ty != "str":
                bad(node, "issuperset() of %s" % show(ty))
            return ("bool", "(py_chars_in [%s] %s)" % ("; ".join(self.tr.charset(f.value.id, node)), t))
        if self.builtin_call(node, "len", env, 1) or self.builtin_call(node, "tuple", env, 1):
            if f.id == "len":
                snap, pre0 = self.snapshot(), list(self.pre)
                ty, t = self.ex(node.args[0], env)
                if ty == "str":
                    return ("int", "(str_len %s)" % t)
                self.restore(snap)
                self.pre = pre0
            ty, t = self.listexpr(node.args[0], env) if f.id == "tuple" else self.ex(node.args[0], env)
            if not is_list(ty):
                bad(node, "%s() of %s" % (f.id, show(ty)))
            return ("int", "(Z.of_nat (List.length %s))" % t) if f.id == "len" else (ty, t)     # a tuple of a list: the same Coq list
        if isinstance(f, ast.Name) and f.id not in env and not self.mod.toplevel(f.id) and f.id in ("sorted", "set", "list"):
            if f.id == "sorted":
                return self.sorted_(node, env)
            if (f.id == "list" and len(node.args) == 1 and not node.keywords and isinstance(node.args[0], ast.Call)
                    and isinstance(node.args[0].func, ast.Attribute) and node.args[0].func.attr == "subnet"):
                return self.subnet_list(node, env)
            if f.id == "set" and len(node.args) == 1 and not node.keywords:
                ty, t = self.ex(node.args[0], env)
                if is_list(ty):
                    return (("set", ty[1]), "(py_set_of_list %s %s)" % (self.elem_eqb(node, ty), t))
            bad(node, "%s() with an unsupported argument" % f.id)
        if isinstance(f, ast.Name) and f.id not in env and self.mod.imports.get(f.id) in EXTERN:
            sym, ptys, rty = EXTERN[self.mod.imports[f.id]]      # an untranslated callee: its hand model, as a prelude symbol
            args = [self.ex(x, env) for x in node.args]
            if node.keywords or len(args) != len(ptys):
                bad(node, "unsupported argument list for %s" % f.id)
            for (ty, _), pty in zip(args, ptys):
                unify(node, ty, parse_type(pty), "argument of %s" % f.id)
            return ("out", parse_type(rty), "(%s)" % " ".join([sym] + [t for _, t in args]))
        if isinstance(f, ast.Name) and f.id not in env and self.tr.owner_of(f.id) is not None:
            return self.callfn(node, f.id, env)
        if self.recv and isinstance(f, ast.Attribute) and dotted(f) == "self." + f.attr and f.attr != "__class__":
            r = self.mod.lookup(self.recv, f.attr)
            if not r or r[2] or node.keywords:
                bad(node, "call of self.%s" % f.attr)
            if self.recv in STATEVARS:                     # state_as_locals put the state names in front of the arguments
                k = len(STATEVARS[self.recv])
                return self.generated(node, self.recv, f.attr, " ".join(self.ex(x, env)[1] for x in node.args[:k]),
                                      [self.ex(x, env) for x in node.args[k:]])
            return self.generated(node, self.recv, f.attr, self.state(env), [("int", self.int_(x, env)) for x in node.args])
        if (isinstance(f, ast.Attribute) and f.attr == "union" and len(node.args) == 1 and not node.keywords
                and isinstance(f.value, ast.Name) and is_set(env.get(f.value.id, ("",))[0])):
            (ta, a), (tb, b) = env[f.value.id], self.ex(node.args[0], env)      # s.union(t): a new set, s first
            unify(node, tb, ta, "argument of union")
            return (("set", ta[1]), "(py_set_union %s %s %s)" % (self.elem_eqb(node, ta), a, b))
        ty, cls = self.ex(f, env) if not isinstance(f, ast.Call) else (None, None)
        if ty != "cls":
            bad(node, "call of %s" % (dotted(f) or "a computed function"))
        return self.ctor(node, cls, env)

    # ---- statements -> IR: let/bind/if/match/join/next/omatch/ret/raise/jret
    def leaf(self, env, kind, term, wrapped=False):
        if kind == "none" and env["@mut"]:
            kind, term = "self", env["@mut"][1]
        if env["@break"] is not None:                   # `return` inside a loop: the loop's Fixpoint answers inl <value>
            if kind in ("none", "self"):
                bad(None, "return without a value inside a loop")
            self.lrets.append(kind)
            return ("lret", kind, term, wrapped)
        return ("ret", kind, term, wrapped)

    def block(self, stmts, env, k, after):
        """IR of the statements; k(env) is what happens when they fall off the end, `after` the statements that may still
        run then (only used to decide which loop variables are read later)"""
        if not stmts:
            return k(env)
        s, rest = stmts[0], list(stmts[1:])
        go = lambda e: self.block(rest, e, k, after)
        if isinstance(s, ast.Pass):
            return go(env)
        if isinstance(s, (ast.Assign, ast.AugAssign)):
            return self.assign(s, env, go)
        if isinstance(s, ast.Expr):
            return self.expr_stmt(s, env, go)
        if isinstance(s, ast.If):
            return self.if_(s, rest, env, k, after)
        if isinstance(s, (ast.While, ast.For)):
            return self.loop(s, rest, env, k, after)
        if isinstance(s, ast.Try):
            if len(s.handlers) == 1 and dotted(s.handlers[0].type) == "StopIteration":
                return self.try_next(s, env, go)
            if (len(s.handlers) == 1 and dotted(s.handlers[0].type) == "NameError" and "NameError" not in env and not s.orelse
                    and not s.finalbody and not self.mod.toplevel("NameError") and self.only_builtins(s.body, env)):
                return self.block(s.body + rest, env, k, after)     # the body reads known names only: the handler is dead code
            if len(s.handlers) == 1 and len(s.handlers[0].body) == 1 and isinstance(s.handlers[0].body[0], ast.Pass):
                return self.try_pass(s, rest, env, k, after)
            return self.try_except(s, rest, env, k, after)
        if isinstance(s, (ast.Break, ast.Continue)):
            h = env["@break" if isinstance(s, ast.Break) else "@continue"]
            if h is None:
                bad(s, "break/continue outside a loop")
            return h(env)
        if isinstance(s, ast.Return):
            return self.return_(s, env)
        if isinstance(s, ast.Raise):
            e = s.exc.func if isinstance(s.exc, ast.Call) else s.exc
            if s.cause or not isinstance(e, ast.Name) or e.id not in EXN:
                bad(s, "raise of something other than a known exception class")
            if env["@mut"]:
                bad(s, "raise after a state assignment (the object would be left modified)")
            return ("raise", e.id)
        bad(s, "statement %s" % type(s).__name__)

    def return_(self, s, env):
        if env["@break"] is not None and not env["@lret"]:
            bad(s, "return inside a nested loop")
        v = s.value
        if v is None:
            return self.leaf(env, "none", None)
        if isinstance(v, ast.Name) and v.id == "self" and "self" not in env:
            if not env["@mut"]:
                bad(s, "return self without a state assignment")
            return self.leaf(env, "self", env["@mut"][1])
        if (isinstance(v, ast.Compare) and len(v.ops) == 1 and isinstance(v.ops[0], ast.In) and dotted(v.comparators[0]) == "self"
                and isinstance(v.left, ast.Call) and len(v.left.args) == 1 and isinstance(v.left.args[0], ast.Name)
                and env.get(v.left.args[0].id, ("",))[0][:2] == ("opnd", "OOther")):
            return ("raise", "Unsupported")     # `return IPNetwork(other) in self`: the string fallback, out of scope (see SKIP)
        if isinstance(v, ast.Tuple):
            items = [self.ex(x, env) for x in v.elts]
            if self.recv is not None and all(ty == "int" for ty, _ in items):
                ir = self.leaf(env, "tuple", "[%s]" % "; ".join(t for _, t in items))
            else:
                if any(not is_value(ty) for ty, _ in items):
                    bad(s, "tuple component of kind %s" % [show(ty) for ty, _ in items if not is_value(ty)][0])
                ir = self.leaf(env, ("tup", tuple(ty for ty, _ in items)), tuple_term([t for _, t in items]))
            return self.wrap(self.take_pre(), ir)
        r = self.rhs(v, env)
        if env["@mut"] and r[0] != "none":
            bad(s, "value returned after a state assignment")
        if r[0] == "out":
            ir = self.leaf(env, r[1], r[2], True)
        elif r[0] == "obj":
            ir = self.leaf(env, "obj", r[1][3])
        elif r[0] in ("int", "bool", "none") or is_value(r[0]):
            ir = self.leaf(env, r[0], r[1])
        elif isinstance(r[0], tuple) and r[0][0] == "iter" and r[1] == "[]":
            ir = self.leaf(env, "iterator", "ItEmpty")          # iter([]) (or an exhausted iterator): ListLike.ItEmpty
        else:
            bad(s, "return of a %s value" % show(r[0]))
        return self.wrap(self.take_pre(), ir)

    def static_seq(self, name):
        """is `name` bound once, to a list literal, and only ever read as name[<literal index>]?"""
        ok = {id(n.value) for n in ast.walk(self.f) if isinstance(n, ast.Subscript) and isinstance(n.ctx, ast.Load)
              and const_int(n.slice) is not None}
        uses = [n for n in ast.walk(self.f) if isinstance(n, ast.Name) and n.id == name]
        return sum(isinstance(n.ctx, ast.Store) for n in uses) == 1 and all(
            isinstance(n.ctx, ast.Store) or id(n) in ok for n in uses) and name not in [a.arg for a in self.f.args.args]

    def owned(self, x):
        """does local x only ever hold objects this function made itself (every binding already translated as a constructor
        result) and never escape (every read is x.<attribute>)?  Only then is `x._prefixlen = e` a plain update of x."""
        bases = {id(n.value) for n in ast.walk(self.f) if isinstance(n, ast.Attribute)}
        bases |= {id(n.value) for n in ast.walk(self.f) if isinstance(n, ast.Return) and isinstance(n.value, ast.Name)}   # `return x` ends it
        binds = [st for st in ast.walk(self.f) if isinstance(st, (ast.Assign, ast.AugAssign, ast.For, ast.With, ast.NamedExpr))
                 and any(isinstance(n, ast.Name) and n.id == x and isinstance(n.ctx, ast.Store) and id(n) not in bases for n in ast.walk(st))]
        return (all(id(st) in self.freshbind for st in binds) and x not in [a.arg for a in self.f.args.args]
                and all(id(n) in bases for n in ast.walk(self.f) if isinstance(n, ast.Name) and n.id == x and isinstance(n.ctx, ast.Load)))

    def no_iterator_over(self, node, cn, env):
        """an iterator is translated as the (Coq name of the) list it runs over: that name must not be rebound while it lives"""
        for key, val in env.items():
            if not key.startswith("@") and isinstance(val[0], tuple) and val[0][0] == "iter" and re.search(r"\b%s\b" % re.escape(cn), val[1]):
                bad(node, "%s is rebound or mutated while the iterator %s over it is live" % (cn, key))

    def bind_local(self, node, x, ty, env, value_node=None):
        """env after binding local x (a value of type ty) to its own Coq name"""
        if x in ("self", "_ipv4", "_ipv6"):
            bad(node, "rebinding of %s" % x)
        cn, env = self.coqname(node, x), dict(env)
        self.no_iterator_over(node, cn, env)
        env[x] = (ty, cn)
        if value_node is not None:
            env["@taint"] = env["@taint"] | {x} if self.tainted(value_node, env) else env["@taint"] - {x}
        return cn, env

    def assign(self, s, env, go):
        tgts = s.targets if isinstance(s, ast.Assign) else [s.target]
        if len(tgts) != 1:
            bad(s, "multiple assignment")
        tgt = tgts[0]
        value = s.value if isinstance(s, ast.Assign) else ast.copy_location(ast.BinOp(tgt, s.op, s.value), s)
        if isinstance(tgt, ast.Tuple):                                   # a, b, c = e
            r = self.rhs(value, env)
            pre = self.take_pre()
            ty = r[1] if r[0] == "out" else r[0]
            if not (isinstance(ty, tuple) and ty[0] == "tup" and len(ty[1]) == len(tgt.elts) and all(isinstance(x, ast.Name) for x in tgt.elts)):
                bad(s, "unpacking of %s" % show(ty))
            names = []
            for x, xty in zip(tgt.elts, ty[1]):
                if x.id == "_":
                    names.append("_")
                    env = dict(env)
                    env.pop("_", None)
                else:
                    cn, env = self.bind_local(x, x.id, xty, env, value)
                    names.append(cn)
            return self.wrap(pre, ("bind" if r[0] == "out" else "let", pattern(names), r[2] if r[0] == "out" else r[1], go(env)))
        if (isinstance(tgt, ast.Name) and isinstance(value, ast.Call) and isinstance(value.func, ast.Attribute) and value.func.attr == "pop"
                and isinstance(value.func.value, ast.Name) and is_list(env.get(value.func.value.id, ("",))[0])):
            l = value.func.value.id                                      # x = l.pop()
            if value.args or value.keywords or isinstance(s, ast.AugAssign) or l == tgt.id:
                bad(s, "pop() with arguments")
            lty, lt = env[l]
            elem = lty[1].find().t
            if elem is None:
                bad(s, "pop() from a list whose element type is not known yet")
            lcn, env = self.bind_local(s, l, lty, env)
            cn, env = self.bind_local(tgt, tgt.id, elem, env, value)
            return ("bind", pattern([lcn, cn]), "(py_pop %s)" % lt, go(env))
        if isinstance(tgt, ast.Name) and isinstance(s, ast.Assign) and isinstance(value, ast.List) and value.elts and self.static_seq(tgt.id):
            items = [self.ex(x, env) for x in value.elts]                # a list literal that is only ever indexed by literals
            pre, env = self.take_pre(), dict(env)
            if any(ty not in ("int", "bool", "net") for ty, _ in items):
                bad(s, "list literal element of kind %s" % [show(ty) for ty, _ in items if ty not in ("int", "bool", "net")][0])
            names = [self.coqname(tgt, "%s_%d" % (tgt.id, i)) for i in range(len(items))]
            env[tgt.id] = (("seq",), [(ty, cn) for (ty, _), cn in zip(items, names)])
            ir = go(env)
            for (ty, t), cn in reversed(list(zip(items, names))):
                ir = ("let", cn, t, ir)
            return self.wrap(pre, ir)
        if (isinstance(tgt, ast.Attribute) and isinstance(tgt.value, ast.Name) and env.get(tgt.value.id, ("",))[0] == "eui"
                and tgt.attr == "_value"):
            x, old = tgt.value.id, env[tgt.value.id][1]              # x._value = e on a local EUI object this function made itself
            if not self.owned(x):
                bad(s, "attribute assignment on %s, which may be visible under another name" % x)
            e = self.int_(value, env)
            pre = self.take_pre()
            cn, env = self.bind_local(s, x, "eui", env, value)
            return self.wrap(pre, ("let", cn, "{| ever := ever %s; evalue := %s; edialect := edialect %s |}" % (old, e, old), go(env)))
        if (isinstance(tgt, ast.Attribute) and isinstance(tgt.value, ast.Name) and env.get(tgt.value.id, ("",))[0] == "net"
                and tgt.attr in ("_value", "_prefixlen")):
            x, old = tgt.value.id, env[tgt.value.id][1]              # x._prefixlen = e on a local object: a new record value for x
            if not self.owned(x):
                bad(s, "attribute assignment on %s, which may be visible under another name" % x)
            e = self.int_(value, env)
            pre = self.take_pre()
            cn, env = self.bind_local(s, x, "net", env, value)
            env["@raw"] = env["@raw"] | {x}
            term = "{| nver := nver %s; nval := %s; nplen := %s |}" % (
                old, e if tgt.attr == "_value" else "nval " + old, e if tgt.attr == "_prefixlen" else "nplen " + old)
            return self.wrap(pre, ("let", cn, term, go(env)))
        r = self.rhs(value, env)
        pre, env = self.take_pre(), dict(env)
        path = dotted(tgt)
        if isinstance(tgt, ast.Name):
            x = tgt.id
            ty = r[1] if r[0] == "out" else r[0]
            if r[0] == "out" and r[1] in ("net", "eui") and isinstance(s, ast.Assign) and (
                    r[2].startswith("(mk_net ") or r[2].startswith("(mk_eui ") or any(d.fresh and r[2].startswith("(%s " % d.cname) for d in self.depfns)):
                self.freshbind.add(id(s))
            if is_list(ty) and isinstance(value, ast.Name):
                bad(s, "a second name for a list (aliasing)")
            if r[0] == "out" and (r[1] == "obj" or is_value(r[1])):
                cn, env = self.bind_local(tgt, x, r[1], env, value)
                if r[1] == "obj":
                    env[x] = ("obj", self.objvar(cn))
                return self.wrap(pre, ("bind", cn, r[2], go(env)))
            if is_value(r[0]):
                cn, env = self.bind_local(tgt, x, r[0], env, value)
                return self.wrap(pre, go(env) if r[1] == cn else ("let", cn, r[1], go(env)))
            if r[0] in ("none", "cls") or (isinstance(r[0], tuple) and r[0][0] == "iter"):
                if x in ("self", "_ipv4", "_ipv6"):
                    bad(s, "rebinding of %s" % x)
                self.coqname(tgt, x)
                env[x] = r
                env["@taint"] = env["@taint"] | {x} if self.tainted(value, env) else env["@taint"] - {x}
                return self.wrap(pre, go(env))
            bad(s, "assignment of a %s value" % show(ty))
        if path in FIELD and path in self.attrs and r[0] == "int":
            if env["@mut"] and env["@mut"][0] != path:
                bad(s, "assignment to a second attribute of self")
            if env["@break"] is not None:
                bad(s, "state assignment inside a loop")
            env["@mut"], env[path] = (path, r[1]), ("int", r[1])
            return self.wrap(pre, go(env))
        bad(s, "assignment target")

    def expr_stmt(self, s, env, go):
        v = s.value
        if (isinstance(v, ast.Call) and isinstance(v.func, ast.Attribute) and v.func.attr == "append" and isinstance(v.func.value, ast.Name)
                and is_list(env.get(v.func.value.id, ("",))[0]) and len(v.args) == 1 and not v.keywords):
            l = v.func.value.id                                          # l.append(e)
            lty, lt = env[l]
            ty, t = self.ex(v.args[0], env)
            if not is_value(ty):
                bad(s, "append of a %s value" % show(ty))
            unify(s, ("list", Cell(ty)), lty, "appended element")
            pre = self.take_pre()
            cn, env = self.bind_local(s, l, lty, env)
            if self.tainted(v.args[0], env):
                env["@taint"] = env["@taint"] | {l}
            return self.wrap(pre, ("let", cn, "(%s ++ [%s])" % (lt, t), go(env)))
        if (isinstance(v, ast.Call) and isinstance(v.func, ast.Attribute) and v.func.attr == "remove" and isinstance(v.func.value, ast.Name)
                and is_set(env.get(v.func.value.id, ("",))[0]) and len(v.args) == 1 and not v.keywords):
            l = v.func.value.id                                          # s.remove(e): KeyError if absent
            lty, lt = env[l]
            ty, t = self.ex(v.args[0], env)
            unify(s, ("set", Cell(ty)), lty, "removed element")
            pre = self.take_pre()
            cn, env = self.bind_local(s, l, lty, env)
            return self.wrap(pre, ("bind", cn, "(py_set_remove %s %s %s)" % (self.elem_eqb(s, lty), lt, t), go(env)))
        bad(s, "expression statement other than l.append(e) / s.remove(e)")

    def if_(self, s, rest, env, k, after):
        t, neg = s.test, False
        if isinstance(t, ast.UnaryOp) and isinstance(t.op, ast.Not):
            t, neg = t.operand, True
        if isinstance(t, ast.Call) and dotted(t.func) == "isinstance":
            return self.isinstance_(s, t, neg, rest, env, k, after)
        if (not neg and isinstance(t, ast.Compare) and len(t.ops) == 1 and isinstance(t.ops[0], ast.Is) and isinstance(t.left, ast.Name)
                and isinstance(t.comparators[0], ast.Constant) and t.comparators[0].value is None
                and env.get(t.left.id, ("",))[0] == "optdialect"):
            # `if dialect is None: dialect = <module constant bound to a dialect class>`: from here on `dialect` is a dialect
            x, a = t.left.id, s.body[0] if len(s.body) == 1 else None
            if not (s.orelse == [] and isinstance(a, ast.Assign) and len(a.targets) == 1 and isinstance(a.targets[0], ast.Name)
                    and a.targets[0].id == x and isinstance(a.value, ast.Name) and a.value.id not in env):
                bad(s, "`if %s is None:` followed by something other than `%s = <DEFAULT>`" % (x, x))
            old, dflt = env[x][1], self.tr.dialect_const(a.value.id, a)
            cn, env = self.bind_local(a.targets[0], x, "dialect", env, t)
            return ("let", cn, "(match %s with Some h0 => h0 | None => %s end)" % (old, dflt), self.block(rest, env, k, after))
        if (isinstance(t, ast.Call) and dotted(t.func) == "_is_str" and "_is_str" not in env
                and self.mod.imports.get("_is_str") == "netaddr.compat._is_str" and compat_lambda_isinstance("_is_str")):
            # _is_str(x): true for a value the translator types as text, false for an int
            if len(t.args) != 1 or t.keywords or not isinstance(t.args[0], ast.Name) or env.get(t.args[0].id, ("",))[0] not in ("str", "int"):
                bad(s, "_is_str test on something that is neither text nor an int")
            yes = (env[t.args[0].id][0] == "str") != neg
            return self.block((s.body if yes else s.orelse) + rest, env, k, after)
        if isinstance(t, ast.Call) and dotted(t.func) == "hasattr" and "hasattr" not in env and not self.mod.toplevel("hasattr"):
            # hasattr(<parameter>, '<name>'): decided by the declared type of the parameter
            if not (len(t.args) == 2 and not t.keywords and isinstance(t.args[0], ast.Name) and t.args[0].id in [x.arg for x in self.f.args.args]
                    and isinstance(t.args[1], ast.Constant) and isinstance(t.args[1].value, str) and t.args[0].id in env):
                bad(s, "hasattr test other than hasattr(<parameter>, '<name>')")
            ty = env[t.args[0].id][0]
            if t.args[0].id not in self.ptypes_declared or (ty if isinstance(ty, str) else ty[0], t.args[1].value) not in HASATTR:
                bad(s, "hasattr(%s, %r) is not decided by the declared type %s" % (t.args[0].id, t.args[1].value, show(ty)))
            yes = HASATTR[(ty if isinstance(ty, str) else ty[0], t.args[1].value)] != neg
            return self.block((s.body if yes else s.orelse) + rest, env, k, after)
        c = self.bool_(s.test, env)
        pre = self.take_pre()
        exits = (ast.Return, ast.Raise, ast.Break, ast.Continue, ast.Try)
        if not any(isinstance(n, exits) for st in s.body + s.orelse for n in ast.walk(st)):
            snap = self.snapshot()
            try:
                return self.wrap(pre, self.join(s, c, rest, env, k, after))
            except NoJoin:
                self.restore(snap)
        return self.wrap(pre, ("if", c, self.block(s.body + rest, env, k, after), self.block(s.orelse + rest, env, k, after)))

    def join(self, s, c, rest, env, k, after):
        """`if` whose branches fall through: the locals assigned in it are joined, the rest of the block follows once"""
        names, ends = assigned_names(s.body + s.orelse), []

        def end(e):
            ends.append(e)
            return ("jret", e)
        a, b = self.block(s.body, env, end, rest + after), self.block(s.orelse, env, end, rest + after)
        if any(e["@mut"] != env["@mut"] for e in ends):
            raise NoJoin()
        for key, val in env.items():                # compile-time bindings (None, classes, iterators) must come out unchanged
            if not key.startswith("@") and not is_value(val[0]) and any(e.get(key) != val for e in ends):
                raise NoJoin()
        joined = [x for x in names if all(x in e and is_value(e[x][0]) for e in ends)]
        if not joined or any(x in env for x in names if x not in joined):
            raise NoJoin()
        env = dict(env)
        for x in names:
            env.pop(x, None)                         # bound on one side only: unbound from here on
        for x in joined:
            try:
                for e in ends[1:]:
                    unify(s, e[x][0], ends[0][x][0], "branches of if")
            except Untranslatable:
                raise NoJoin()
            env[x] = (ends[0][x][0], self.coqname(s, x))
        env["@taint"] = frozenset().union(*[e["@taint"] for e in ends]) - (set(names) - set(joined))

        def close(ir):                               # the pending ends of THIS join become tuples of the joined variables
            if ir[0] == "jret" and isinstance(ir[1], dict):
                return ("jret", tuple_term([ir[1][x][1] for x in joined]))
            return tuple(close(x) if isinstance(x, tuple) and x and isinstance(x[0], str) else
                         [(kd, ns, close(sub)) for kd, ns, sub in x] if isinstance(x, list) else x for x in ir)
        return ("join", pattern([env[x][1] for x in joined]), ("if", c, close(a), close(b)), self.block(rest, env, k, after))

    def isinstance_(self, s, t, neg, rest, env, k, after):
        if len(t.args) != 2 or t.keywords or not isinstance(t.args[0], ast.Name):
            bad(s, "isinstance test on something other than a name")
        x = t.args[0].id
        ty = env.get(x, ("",))[0]
        yes, no = (s.orelse, s.body) if neg else (s.body, s.orelse)
        if ty == "sarg":
            if dotted(t.args[1]) != "_int_type" or self.mod.imports.get("_int_type") != "netaddr.compat._int_type":
                bad(s, "isinstance test other than isinstance(<sarg parameter>, _int_type)")
            ienv = dict(env)
            ienv[x] = ("int", env[x][1])
            return ("match", env[x][1], self.block(yes + rest, ienv, k, after), self.block(no + rest, env, k, after))
        if ty == "operand":                                   # split into the four kinds, then decide the test in each arm
            arms = []
            for kind, fields in OPERAND:
                aenv = dict(env)
                names = [self.coqname(s, "%s_%s" % (x, f)) for f in fields]
                aenv[x] = (("opnd", kind, dict(zip(fields, names))), None)
                arms.append((kind, names, self.block([s] + rest, aenv, k, after)))
            return ("omatch", env[x][1], arms)
        if isinstance(ty, tuple) and ty[0] == "opnd":
            if not isinstance(t.args[1], ast.Name):
                bad(s, "isinstance against something other than a class name")
            return self.block((yes if self.isinst(s, ty[1], t.args[1].id) else no) + rest, env, k, after)
        bad(s, "isinstance test on %s, which is neither an `sarg` nor an `operand` parameter" % x)

    def try_except(self, s, rest, env, k, after):
        """try: body / except E1: raise E2(..)  ->  do <variables assigned in body> <- py_except E1 E2 (body); rest.
        The handler covers exactly the body; E1 is matched by class (no listed exception class derives from another one)."""
        h = s.handlers[0] if len(s.handlers) == 1 else None
        exits = (ast.Return, ast.Break, ast.Continue, ast.Try, ast.While, ast.For)
        if (h is None or s.orelse or s.finalbody or not isinstance(h.type, ast.Name) or h.type.id not in EXN or h.type.id in env
                or self.mod.toplevel(h.type.id) and h.type.id not in self.mod.imports
                or len(h.body) != 1 or not isinstance(h.body[0], ast.Raise) or env["@mut"]
                or any(isinstance(n, exits) for st in s.body for n in ast.walk(st))):
            bad(s, "try statement other than `try: <assignments, if, raise> / except E1: raise E2(..)`")
        if h.name and any(isinstance(n, ast.Name) and n.id == h.name for st in rest + after for n in ast.walk(st)):
            bad(s, "exception variable %s used after the handler" % h.name)
        e2 = self.block(h.body, {**env, "@break": None}, None, [])[1]
        names, ends = assigned_names(s.body), []

        def end(e):
            ends.append(e)
            return ("jret", e)
        body = self.block(s.body, env, end, rest + after)
        exported = [x for x in names if ends and all(x in e and (is_value(e[x][0]) or e[x][0] == "obj") for e in ends)]
        for key, val in env.items():                # compile-time bindings must come out unchanged, or be dead
            if not key.startswith("@") and key not in exported and any(e.get(key) != val for e in ends):
                if key in loaded_names(rest + after):
                    bad(s, "%s is rebound inside try to something that is no Coq value and read afterwards" % key)
        env = dict(env)
        for x in names:
            env.pop(x, None)
        cns = []
        for x in exported:
            for e in ends[1:]:
                unify(s, e[x][0], ends[0][x][0], "ends of the try body")
            cn = self.coqname(s, x)
            cns.append(cn)
            env[x] = ("obj", self.objvar(cn)) if ends[0][x][0] == "obj" else (ends[0][x][0], cn)
        env["@taint"] = frozenset().union(env["@taint"], *[e["@taint"] for e in ends]) - (set(names) - set(exported))

        def close(ir):
            if ir[0] == "jret" and isinstance(ir[1], dict):
                return ("jret", tuple_term([ir[1][x][1][3] if ir[1][x][0] == "obj" else ir[1][x][1] for x in exported]))
            return tuple(close(x) if isinstance(x, tuple) and x and isinstance(x[0], str) else
                         [(kd, ns, close(sub)) for kd, ns, sub in x] if isinstance(x, list) else x for x in ir)
        return ("try", h.type.id, e2, pattern(cns), close(body), self.block(rest, env, k, after))

    def only_builtins(self, stmts, env):
        """does every name read by the statements denote a local or one of the builtins the translator knows (so that no
        NameError can arise)?"""
        known = ("bin", "int", "len", "bool", "min", "max")
        return all(n.id in env or (n.id in known and not self.mod.toplevel(n.id)) for st in stmts for n in ast.walk(st)
                   if isinstance(n, ast.Name) and isinstance(n.ctx, ast.Load))

    def try_pass(self, s, rest, env, k, after):
        """try: body / except E: pass, where body assigns nothing (it may `return`):
        do h <- py_except_pass E (body: inl <returned value> | inr tt at its end); match h with inl r => r | inr _ => rest"""
        h = s.handlers[0]
        exits = (ast.Break, ast.Continue, ast.Try, ast.While, ast.For)
        if (s.orelse or s.finalbody or not isinstance(h.type, ast.Name) or h.type.id not in EXN or h.type.id in env or h.name
                or (self.mod.toplevel(h.type.id) and h.type.id not in self.mod.imports) or env["@mut"] or env["@break"] is not None
                or assigned_names(s.body) or any(isinstance(n, exits) for st in s.body for n in ast.walk(st))):
            bad(s, "try statement other than `try: <if / return / raise, no assignment> / except E: pass` outside loops")
        benv = dict(env)
        benv["@break"], benv["@continue"], benv["@lret"] = (lambda e: None), None, True      # `return` inside: the body answers inl
        body = self.block(s.body, benv, lambda e: ("ret", "@loop", "(inr tt)", False), rest + after)
        hn, rn = self.fresh(), self.fresh()
        return ("trypass", h.type.id, hn, rn, body, self.block(rest, env, k, after))

    def try_next(self, s, env, go):
        """try: x = [IPNetwork(]_iter_next(it)[)] ... except StopIteration: raise E(...)  ->  match it with [] => Raise E | x :: it => ..."""
        h = s.handlers[0] if len(s.handlers) == 1 else None
        if (h is None or s.orelse or s.finalbody or dotted(h.type) != "StopIteration" or h.name or len(h.body) != 1
                or not isinstance(h.body[0], ast.Raise) or self.mod.imports.get("_iter_next") != "netaddr.compat._iter_next"):
            bad(s, "try statement other than `try: x = _iter_next(it) ... except StopIteration: raise E`")
        exc = self.block(h.body, env, None, [])

        def step(i, env):
            if i == len(s.body):
                return go(env)
            st = s.body[i]
            v = st.value if isinstance(st, ast.Assign) and len(st.targets) == 1 and isinstance(st.targets[0], ast.Name) else None
            conv = isinstance(v, ast.Call) and dotted(v.func) == "IPNetwork" and len(v.args) == 1 and not v.keywords
            nx = v.args[0] if conv else v
            if not (isinstance(nx, ast.Call) and dotted(nx.func) == "_iter_next" and len(nx.args) == 1 and not nx.keywords
                    and isinstance(nx.args[0], ast.Name) and env.get(nx.args[0].id, ("",))[0][0] == "iter"):
                bad(st, "statement inside try other than x = [IPNetwork(]_iter_next(<iterator>)[)]")
            it = nx.args[0].id
            ity, itt = env[it]
            elem = ity[1].find().t
            if elem is None or (conv and elem != "net"):
                bad(st, "IPNetwork(x) of %s (only an IPNetwork-valued x is the identity)" % show(elem or "?"))
            env = dict(env)
            env[it] = (ity, self.coqname(st, it))
            cn, env = self.bind_local(st.targets[0], st.targets[0].id, elem, env, v)
            return ("next", itt, cn, env[it][1], exc, step(i + 1, env))
        return step(0, env)

    def loop(self, s, rest, env, k, after):
        """while / for -> a Fixpoint (class Loop) and its call; see the module docstring"""
        iswhile = isinstance(s, ast.While)
        if s.orelse or env["@mut"]:
            bad(s, "loop with else / loop after a state assignment")
        nested = env["@break"] is not None
        has_ret = any(isinstance(n, ast.Return) for st in s.body for n in ast.walk(st))
        if nested and has_ret:
            bad(s, "return inside a nested loop")
        name = "%s_loop%d" % (self.cname, self.loopno[id(s)])
        assigned, loads = assigned_names(s.body), loaded_names(([s.test] if iswhile else []) + s.body)
        it = target = elem = itterm = counter = ccn = None
        iterpre, israng = [], False
        if not iswhile:
            tnode, itexpr = s.target, s.iter
            if (self.builtin_call(itexpr, "enumerate", env, 1) and isinstance(tnode, ast.Tuple) and len(tnode.elts) == 2
                    and all(isinstance(x, ast.Name) for x in tnode.elts)):
                counter, tnode, itexpr = tnode.elts[0].id, tnode.elts[1], itexpr.args[0]   # for i, x in enumerate(xs): i = 0, 1, ..
                if counter in env or counter in assigned or counter == tnode.id:
                    bad(s, "enumerate() counter %s is bound before the loop or assigned in it" % counter)
            if not isinstance(tnode, ast.Name):
                bad(s, "for loop other than `for <name> in <list>` / `for i, x in enumerate(<list>)` / `for _ in range(n)`")
            target = tnode.id
            if self.builtin_call(itexpr, "range", env, 1) and counter is None:
                # for _ in range(n): n iterations (none for n <= 0); the loop variable itself is not translated
                if target in loads or target in env:
                    bad(s, "loop variable %s of range() is read (or bound before)" % target)
                israng, itterm, elem, target = True, "(Z.to_nat %s)" % self.int_(itexpr.args[0], env), "unit", None
                iterpre = self.take_pre()
            elif (isinstance(itexpr, ast.Name) and itexpr.id in env and isinstance(env[itexpr.id][0], tuple)
                    and env[itexpr.id][0][0] in ("list", "iter")):
                it, (itty, itterm) = itexpr.id, env[itexpr.id]
            else:                                        # `for x in <expression>`: the list is computed once, before the loop
                itty, itterm = self.listexpr(itexpr, env)
                if not is_list(itty):
                    bad(s, "for loop over %s" % show(itty))
                iterpre = self.take_pre()
            if not israng:
                elem = itty[1].find().t
                if elem is None or it in assigned or target in env or target in assigned_names(s.body):
                    bad(s, "for loop over a list of unknown element type, or that rebinds its list or its loop variable")
        later = loaded_names(rest + after)
        carried = [x for x in assigned if x in env and x != target]
        for x in carried:
            if not is_value(env[x][0]):
                bad(s, "loop assigns %s, a %s" % (x, show(env[x][0])))
        inv = [x for x in loads if x in env and x not in carried and x != it and is_value(env[x][0])]
        for x in loads:
            if x in env and x != it and x not in inv + carried and env[x][0] not in ("none", "cls"):
                bad(s, "loop reads %s, a %s" % (x, show(env[x][0])))
        live = [x for x in carried if x in later]
        inside = {id(n) for st in s.body for n in ast.walk(st)}      # (an enclosing loop puts this very loop into `after`)
        if any(isinstance(n, ast.Name) and n.id in (target, counter) and isinstance(n.ctx, ast.Load) and id(n) not in inside
               for st in rest + after for n in ast.walk(st)):
            bad(s, "loop variable %s read after the loop" % target)
        state = list(STATE[self.recv]) if "self" in loads else []
        ienv = {key: val for key, val in env.items() if key.startswith("@") or val[0] in ("none", "cls")}
        params = [(self.coqname(s, x), env[x][0]) for x in inv + carried]
        for x, (cn, ty) in zip(inv + carried, params):
            ienv[x] = (ty, cn)
        if any(x in env["@taint"] for x in loads):       # a value computed in one iteration is read in the next one
            ienv["@taint"] = env["@taint"] | frozenset(assigned)

        def result(e):                                   # the loop stops in environment e
            for x in live:
                if x not in e:
                    bad(s, "%s may be unbound when the loop stops" % x)
                unify(s, e[x][0], env[x][0], "loop variable %s" % x)
            t = tuple_term([e[x][1] for x in live])
            return ("ret", "@loop", "(inr %s)" % t if has_ret else t, False)

        def again(e):                                    # next iteration in environment e
            for x in carried:
                if x not in e:
                    bad(s, "%s may be unbound at the end of the loop body" % x)
                unify(s, e[x][0], env[x][0], "loop variable %s" % x)
            args = (["fuel'"] * iswhile + state + [ienv[x][1] for x in inv] + ["fuel'" if israng else "xs'"] * (not iswhile)
                    + ["(%s + 1)" % ccn] * (counter is not None) + [e[x][1] for x in carried])
            return ("ret", "@loop", "(%s)" % " ".join([name] + args), True)
        ienv["@break"], ienv["@continue"], ienv["@lret"] = result, again, has_ret
        ahead = [s] + rest + after
        if iswhile:
            c = self.bool_(s.test, ienv)
            ir = self.wrap(self.take_pre(), ("if", c, self.block(s.body, ienv, again, ahead), result(ienv)))
            outcome, ps = True, [(x, "int") for x in state] + params
        else:
            tcn, benv = ("_", ienv) if israng else self.bind_local(s.target, target, elem, ienv, s.iter)
            if counter is not None:
                ccn, benv = self.bind_local(s.target, counter, "int", benv)
            ir = (result(ienv), self.block(s.body, benv, again, ahead))
            outcome = any(self.effects(x) for x in ir)
            ps = ([(x, "int") for x in state] + params[:len(inv)], [(ccn, "int")] * (counter is not None) + params[len(inv):])
        L = Loop(name, s, iswhile, ps, tuple_type([env[x][0] for x in live]), ir, outcome, elem, None if iswhile else tcn, has_ret, israng)
        if id(s) in self.loopmemo:
            if repr(self.loopmemo[id(s)].ir) != repr(ir):
                bad(s, "loop reached in two different contexts")
        else:
            self.loopmemo[id(s)] = L
            self.loops.append(L)
        # the call
        args = (state + [env[x][1] for x in inv] + ([itterm] if not iswhile else []) + ["0"] * (counter is not None)
                + [env[x][1] for x in carried])
        if iswhile:
            spec = FUEL.get((self.recv, self.name, self.loopno[id(s)]))
            if spec is None:
                bad(s, "while loop %d of %s has no entry in the translator's FUEL table" % (self.loopno[id(s)], self.name))
            args = ["(Z.to_nat %s + %d)" % (self.int_(ast.parse(spec[0], mode="eval").body, env), spec[1])] + args
            if self.take_pre():
                bad(s, "fuel expression that can raise")
        env2 = {key: val for key, val in env.items() if key not in carried}
        for x in live:
            self.no_iterator_over(s, self.coqname(s, x), env)
            env2[x] = (env[x][0], self.coqname(s, x))
        env2["@taint"] = ienv["@taint"] - (set(assigned) - set(live))
        env2["@raw"] = env["@raw"] | {n.value.id for st in s.body for n in ast.walk(st)
                                      if isinstance(n, ast.Attribute) and isinstance(n.ctx, ast.Store) and isinstance(n.value, ast.Name)}
        if it and env[it][0][0] == "iter":
            if any(isinstance(n, ast.Break) for st in s.body for n in ast.walk(st)):
                env2.pop(it)
            else:
                env2[it] = (env[it][0], "[]")                # exhausted
        pat = pattern([env2[x][1] for x in live])
        if has_ret:         # inl r: the body returned r; inr <variables>: the loop ended
            h = self.fresh()
            return self.wrap(iterpre, ("bind" if outcome else "let", h, "(%s)" % " ".join([name] + args),
                                       ("lmatch", h, self.fresh(), pat, self.block(rest, env2, k, after))))
        return self.wrap(iterpre, ("bind" if outcome else "let", pat, "(%s)" % " ".join([name] + args), self.block(rest, env2, k, after)))

    # ---- result type and text
    @staticmethod
    def children(ir):
        k = ir[0]
        return ([ir[3]] if k in ("let", "bind") else [ir[2], ir[3]] if k in ("if", "match", "join") else [ir[4], ir[5]] if k == "next"
                else [a[2] for a in ir[2]] if k == "omatch" else [ir[4]] if k == "lmatch" else [ir[4], ir[5]] if k in ("try", "trypass") else [])

    def leaves(self, ir):
        return [ir] if ir[0] in ("ret", "raise") else [x for sub in self.children(ir) for x in self.leaves(sub)]

    def effects(self, ir):
        """can evaluating this IR raise (does it have to live in `outcome`)?"""
        return ir[0] in ("raise", "bind", "next", "try", "trypass") or (ir[0] == "ret" and ir[1] != "@loop" and ir[3]) or (ir[0] == "lret" and ir[3]) or any(
            self.effects(x) for x in self.children(ir))

    def finish(self):
        rets = [l for l in self.leaves(self.ir) if l[0] == "ret" and l[1] != "@loop"]      # (@loop: the end of a try body)
        kinds = [l[1] for l in rets if l[1] != "none"] + self.lrets
        if not kinds:
            bad(self.f, "no return value")
        for kd in kinds[1:]:
            unify(self.f, kd, kinds[0], "return values")
        self.kind = kinds[0]
        self.optional = any(l[1] == "none" for l in rets)
        if self.optional and (self.lrets or self.mutating):
            bad(self.f, "None on some paths of a function that returns from inside a loop or assigns the object state")
        self.retkind = self.kind
        self.outcome = self.kind in ("obj", "net", "self") or self.effects(self.ir)
        base = "(option %s)" % coqty(self.kind, self.f) if self.optional else coqty(self.kind, self.f)
        self.type = "outcome " + base if self.outcome else unparen(base)
        self.kind = "int" if self.kind == "self" else self.kind
        self.fresh = bool(rets) and all(l[3] and str(l[2]).startswith(("(mk_net ", "(mk_eui ")) for l in rets)   # every result is a new object

    def render(self, ir, ind, oc, optional=False):
        """text of an IR; oc: does the value live in `outcome`"""
        k = ir[0]
        if k == "ret":
            _, kind, term, wrapped = ir
            if wrapped:
                return "omap Some %s" % term if optional else term
            t = "None" if kind == "none" else ("(Some %s)" % term if optional else term)
            return "Ok %s" % t if oc else t
        if k == "lret":
            return ("omap inl %s" % ir[2]) if ir[3] else ("Ok (inl %s)" % ir[2] if oc else "(inl %s)" % ir[2])
        if k == "jret":
            return "Ok %s" % ir[1] if oc else ir[1]
        if k == "raise":
            return "Raise %s" % ir[1]
        i2 = ind + "  "
        sub = lambda x, o=oc: self.render(x, i2, o, optional) if x[0] in ("ret", "raise", "jret", "lret") else "(" + self.render(x, i2 + " ", o, optional) + ")"
        if k == "let":
            body = self.render(ir[3], ind, oc, optional)
            if ir[2] == "[]" and re.fullmatch(r"\w+", ir[1]) and not re.search(r"\b%s\b" % re.escape(ir[1]), body):
                return body                  # an empty list that is never used (its element type cannot be known): dropped
            return "let %s := %s in\n%s%s" % (ir[1].replace("(", "'(", 1), ir[2], ind, body)
        if k == "bind":
            return "do %s <- %s;\n%s%s" % (ir[1], ir[2], ind, self.render(ir[3], ind, oc, optional))
        if k == "if":
            return "if %s then\n%s%s\n%selse\n%s%s" % (ir[1], i2, sub(ir[2]), ind, i2, sub(ir[3]))
        if k == "join":
            o = self.effects(ir[2])
            _, c, a, b = ir[2]
            i3 = ind + "     "
            body = "if %s then\n%s%s\n%s   else\n%s%s" % (c, i3, self.arm(a, i3, o), ind, i3, self.arm(b, i3, o))
            return ("do %s <-\n%s  (%s);\n%s%s" if o else "let %s :=\n%s  (%s) in\n%s%s") % (
                ir[1] if o else ir[1].replace("(", "'(", 1), ind, body, ind, self.render(ir[3], ind, oc, optional))
        if k == "match":
            return "match %s with\n%s| SInt %s =>\n%s%s\n%s| _ =>\n%s%s\n%send" % (
                ir[1], ind, ir[1], i2, sub(ir[2]), ind, i2, sub(ir[3]), ind)
        if k == "next":
            return "match %s with\n%s| [] =>\n%s%s\n%s| %s :: %s =>\n%s%s\n%send" % (
                ir[1], ind, i2, sub(ir[4]), ind, ir[2], ir[3], i2, sub(ir[5]), ind)
        if k == "try":
            return "do %s <- py_except %s %s\n%s  (%s);\n%s%s" % (ir[3], ir[1], ir[2], ind, self.render(ir[4], ind + "   ", True, False), ind,
                                                                   self.render(ir[5], ind, oc, optional))
        if k == "trypass":
            return "do %s <- py_except_pass %s\n%s  (%s);\n%smatch %s with\n%s| inl %s => Ok %s\n%s| inr _ =>\n%s%s\n%send" % (
                ir[2], ir[1], ind, self.render(ir[4], ind + "   ", True, False), ind, ir[2], ind, ir[3], ir[3], ind, i2, sub(ir[5]), ind)
        if k == "lmatch":
            return "match %s with\n%s| inl %s => %s\n%s| inr %s =>\n%s%s\n%send" % (
                ir[1], ind, ir[2], ("Ok %s" if oc else "%s") % ir[2], ind, ir[3], i2, sub(ir[4]), ind)
        if k == "omatch":
            return "match %s with\n%s%send" % (ir[1], "".join("%s| %s =>\n%s%s\n" % (ind, " ".join([kd] + ns), i2, sub(a)) for kd, ns, a in ir[2]), ind)
        raise AssertionError(k)

    def arm(self, ir, ind, oc):
        """one branch of a join; `let x := e in x` is written e"""
        if ir[0] == "let" and ir[3] == ("jret", ir[1]) and not oc:
            return ir[2]
        return self.render(ir, ind, oc) if ir[0] in ("ret", "raise", "jret", "lret") else "(" + self.render(ir, ind + " ", oc) + ")"

    def what(self):
        if self.recv is None:
            return self.name
        what = "%s.%s%s" % (self.owner, self.pyname, " (property)" if self.is_prop else "")
        if self.name != self.pyname:
            what += ", specialised to %s" % ", ".join("%s : %s" % (cn, show(ty)) for cn, ty in self.params)
        return what + (", receiver class %s" % self.recv if self.owner != self.recv else "")

    def text(self):
        first = min([self.f.lineno] + [d.lineno for d in self.f.decorator_list])
        ps = ("(%s : Z)" % " ".join(STATE[self.recv]) if STATE[self.recv] else "") + "".join(
            " (%s : %s)" % (cn, unparen(coqty(ty, self.f))) for cn, ty in self.statevars + self.params)
        return "".join(L.text(self) + "\n" for L in self.loops) + "(* %s: %s, lines %d-%d *)\nDefinition %s %s : %s :=\n  %s.\n" % (
            self.mod.fn, self.what(), first, self.f.end_lineno, self.cname, ps.strip(), self.type,
            self.render(self.ir, "  ", self.outcome, self.optional))


BY_MODULE = {}      # dotted module name -> the first translator made for its file (filled by generate())


class Translator:
    """all translated definitions of one source file (`out` None: netaddr/ip/__init__.py with WHITELIST + FUNCS)"""

    def __init__(self, fn=IPFILE, out=None, prefix="", specs=None, parent=None):
        self.fn, self.out, self.prefix, self.parent = fn, out, prefix, parent
        self.specs = WHITELIST + FUNCS if specs is None else specs
        self.done, self.order, self.failed, self.active, self.consts = {}, [], {}, [], {}
        BY_MODULE.setdefault(re.sub(r"(/__init__)?\.py$", "", fn).replace("/", "."), self)
        CURFILE.append(fn)
        try:
            self.mod = Module(fn)
        finally:
            CURFILE.pop()

    def mangle(self, recv, name):
        return mangle(recv, name, self.prefix)

    def const_eval(self, node, ns, depth=0):
        """value of an int constant expression over literals, the names of `ns` (a class body being evaluated) and the module's
        top-level int constants"""
        if const_int(node) is not None:
            return const_int(node)
        if isinstance(node, ast.Name) and node.id in ns:
            return ns[node.id]
        if isinstance(node, ast.Name) and depth < 8:
            ds = [a for a in self.mod.tree.body if any(isinstance(n, ast.Name) and n.id == node.id and isinstance(n.ctx, ast.Store)
                                                       for n in ast.walk(a))]
            if len(ds) == 1 and isinstance(ds[0], ast.Assign) and len(ds[0].targets) == 1 and isinstance(ds[0].targets[0], ast.Name):
                return self.const_eval(ds[0].value, {}, depth + 1)
        if isinstance(node, ast.BinOp) and type(node.op) in (ast.Add, ast.Sub, ast.Mult, ast.FloorDiv, ast.Pow):
            a, b = self.const_eval(node.left, ns, depth), self.const_eval(node.right, ns, depth)
            if isinstance(node.op, (ast.FloorDiv,)) and b == 0 or isinstance(node.op, ast.Pow) and b < 0:
                bad(node, "constant expression")
            return {ast.Add: a + b, ast.Sub: a - b, ast.Mult: a * b, ast.FloorDiv: a // b if b else 0, ast.Pow: a ** max(b, 0)}[type(node.op)]
        bad(node, "constant expression %s" % type(node).__name__)

    def class_ints(self, cls, depth=0):
        """the int-valued class attributes of `cls` as Python sees them: each class body is evaluated in its own namespace
        (falling back to the module constants), attributes are looked up through the bases"""
        c = self.mod.classes.get(cls)
        if c is None or depth > 8:
            bad(c, "class %s is not defined in this module" % cls)
        out = {}
        for b in reversed(c.bases):
            out.update(self.class_ints(dotted(b), depth + 1) if dotted(b) != "object" else {})
        ns = {}
        for st in c.body:
            if isinstance(st, ast.Assign) and len(st.targets) == 1 and isinstance(st.targets[0], ast.Name):
                try:
                    ns[st.targets[0].id] = self.const_eval(st.value, ns)
                except Untranslatable:
                    ns.pop(st.targets[0].id, None)
                    out.pop(st.targets[0].id, None)
            elif not (isinstance(st, ast.Expr) and isinstance(st.value, ast.Constant)) and not isinstance(st, (ast.Pass, ast.FunctionDef)):
                bad(st, "statement in the body of class %s that the translator does not read" % cls)
        out.update(ns)
        return out

    def dialect_const(self, name, node):
        """the Gallina constant for the module-level name `name`, which must be bound once, to a dialect class of this module:
        the pair (word_size, num_words) of that class"""
        cn = self.mangle(None, name)
        if cn not in self.consts:
            ds = [a for a in self.mod.tree.body for n in ast.walk(a) if isinstance(n, ast.Name) and n.id == name and isinstance(n.ctx, ast.Store)]
            if (len(ds) != 1 or not isinstance(ds[0], ast.Assign) or len(ds[0].targets) != 1 or not isinstance(ds[0].value, ast.Name)
                    or ds[0].value.id not in self.mod.classes or self.mod.imports.get(name)):
                bad(node, "%s is not bound exactly once, at top level, to a class of this module" % name)
            attrs = self.class_ints(ds[0].value.id)
            if "word_size" not in attrs or "num_words" not in attrs:
                bad(node, "class %s has no constant word_size / num_words" % ds[0].value.id)
            self.consts[cn] = ("(* %s: %s = %s, line %d: (word_size, num_words) of that class *)\nDefinition %s : Z * Z := (%d, %d).\n"
                               % (self.fn, name, ds[0].value.id, ds[0].lineno, cn, attrs["word_size"], attrs["num_words"]))
        return cn

    def charset(self, name, node):
        """the characters of the module-level `name = frozenset([...])` (bound once; one-character strings, and ints -- the byte
        values that iterating over a bytes object yields -- which never equal a character of a str and are left out)"""
        ds = [a for a in self.mod.tree.body for n in ast.walk(a) if isinstance(n, ast.Name) and n.id == name and isinstance(n.ctx, ast.Store)]
        v = ds[0].value if len(ds) == 1 and isinstance(ds[0], ast.Assign) and len(ds[0].targets) == 1 else None
        if not (isinstance(v, ast.Call) and dotted(v.func) == "frozenset" and not self.mod.toplevel("frozenset") and len(v.args) == 1
                and not v.keywords and isinstance(v.args[0], (ast.List, ast.Tuple, ast.Set)) and not self.mod.imports.get(name)
                and all(isinstance(x, ast.Constant) and (isinstance(x.value, int) and not isinstance(x.value, bool) or (
                    isinstance(x.value, str) and len(x.value) == 1 and 32 <= ord(x.value) < 127 and x.value != '"'))
                        for x in v.args[0].elts)):
            bad(node, "%s is not bound once, at top level, to frozenset([<characters and ints>])" % name)
        return ['"%s"%%char' % x.value for x in v.args[0].elts if isinstance(x.value, str)]

    def class_tuple(self, node):
        """the int literals of the class-level tuple C.ATTR (bound once in the body of C, to a tuple of int literals)"""
        c = self.mod.classes[node.value.id]
        ds = [a for a in c.body for n in ast.walk(a) if isinstance(n, ast.Name) and n.id == node.attr and isinstance(n.ctx, ast.Store)]
        if (len(ds) != 1 or not isinstance(ds[0], ast.Assign) or len(ds[0].targets) != 1 or not isinstance(ds[0].value, ast.Tuple)
                or any(const_int(x) is None for x in ds[0].value.elts)):
            bad(node, "%s.%s is not bound once, to a tuple of int literals" % (node.value.id, node.attr))
        if any(isinstance(f, ast.FunctionDef) and any(isinstance(n, ast.Attribute) and n.attr == node.attr and not isinstance(n.ctx, ast.Load)
                                                      for n in ast.walk(f)) for k in self.mod.classes.values() for f in k.body):
            bad(node, "%s.%s is assigned somewhere" % (node.value.id, node.attr))
        return [literal(x, self.mod.text) if isinstance(x, ast.Constant) else "(%d)" % const_int(x) for x in ds[0].value.elts]

    def owner_of_samefile(self, name):
        return self.parent.owner_of(name) if (self.parent is not None and self.parent.fn == self.fn) else None

    def owner_of(self, name):
        """(translator, name there) of the module-level function called `name` in this file: this translator, or -- for
        `from <module> import f [as name]` -- the first translator of that module's file; None if nobody lists the function"""
        if any(k[0] is None and k[1] == name for k in self.specs) and not self.mod.imports.get(name):
            return self, name
        imp = self.mod.imports.get(name)
        if imp:
            module, _, real = imp.rpartition(".")
            t = BY_MODULE.get(module)
            if t is not None and t is not self and any(k[0] is None and k[1] == real for k in t.specs) and not t.mod.imports.get(real):
                return t, real
            return None
        return self.owner_of_samefile(name)

    def modof(self, cls):
        """the parsed module that defines class `cls` as seen from this file (this one, or netaddr/ip/__init__.py for an import)"""
        if cls not in self.mod.classes and self.parent is not None and self.mod.imports.get(cls) == "netaddr.ip." + cls:
            return self.parent.mod
        return self.mod

    def get(self, recv, name, node=None):
        key = (recv, name)
        if recv is None and self.owner_of(name) is not None and self.owner_of(name)[0] is not self:
            t, real = self.owner_of(name)
            return t.get(None, real, node)
        if recv is not None and self.modof(recv) is not self.mod:
            return self.parent.get(recv, name, node)
        if self.parent is not None and self.parent.fn == self.fn and not any(w[:2] == key for w in self.specs):
            return self.parent.get(recv, name, node)        # a second unit over the same file: everything else is the first one's
        if key in self.failed:
            bad(node, "depends on untranslatable %s" % self.mangle(*key))
        if key in self.active:
            bad(node, "recursive use of %s" % self.mangle(*key))
        if key not in self.done:
            spec = [w for w in self.specs if w[:2] == key]
            if not spec:
                bad(node, "use of %s, which is not in the translator's whitelist" % self.mangle(*key))
            self.active.append(key)
            CURFILE.append(self.fn)
            try:
                d = Fn(self, recv, name, spec[0][2])
                d.body_text = d.text()          # also resolves every list type: fail here, scoped to this definition
            except Untranslatable as e:
                self.failed[key] = str(e)
                raise
            except Exception as e:      # a translator bug on an unforeseen AST shape: fail closed, scoped to this method
                self.failed[key] = "%s:?: internal translator error %s: %s" % (self.fn, type(e).__name__, e)
                raise Untranslatable(self.failed[key])
            finally:
                self.active.pop()
                CURFILE.pop()
            self.done[key] = d
            self.order.append(key)
        return self.done[key]

    def run(self):
        for recv, name, _ in self.specs:
            assert (recv, name) not in SKIP or self.out
            try:
                self.get(recv, name)
            except Untranslatable:
                pass
        return self


# ---- SRCA: netaddr/ip/sets.py (IPSet) ---------------------------------------------------------------------------------
# Active only for the units of SETS_FILES; the text generated for every other unit is unchanged.  The hooks are installed
# by wrapping methods of Fn / Module / Translator below (`SRCA hooks`), so that no existing method body is edited.
# Readings (also in the module docstring, paragraph SRCA):
# * An IPSet object is its only attribute `_cidrs`; `_cidrs` (a dict with IPNetwork keys, all values True) is the
#   insertion-ordered list of its keys.  Types `ipset` (the object) and `dict` (its _cidrs), both `list net` in Coq; `x._cidrs`
#   of an ipset x is x.  The state of a method is `self_cidrs` (STATEVARS).
# * sets_prepare() rewrites a function of sets.py, before translation, into statements the translator knows:
#     d[k] = True -> d = __sets_dict_set(d, k);  del d[k] -> d = __sets_dict_del(d, k);  d.update(e) -> d = __sets_dict_update(d, e)
#     (d: self._cidrs, <name>._cidrs or a name);  for x in <..>._cidrs -> for x in __sets_dict_keys(<..>._cidrs) (the keys in
#     insertion order; the body may change that dict only directly before `return` / `break`);  for a, b in e: body ->
#     for sets_itemN in e: a, b = sets_itemN; body;  x.m(..) as a statement, for a local IPSet x and a method m that assigns the
#     state -> x = x.m(..);  `assert` statements are dropped (they do not run under -O; the hand model has none).
#   The names __sets_* are not Python names of the file; sets_rhs() turns them into the prelude symbols py_dict_*.
BY_OUT = {}      # output file -> its Translator (filled by the wrapped Translator.__init__)


def _sets_load(node):
    import copy
    n = copy.deepcopy(node)
    for x in ast.walk(n):
        if hasattr(x, "ctx"):
            x.ctx = ast.Load()
    return n


def _sets_store(node):
    n = _sets_load(node)
    n.ctx = ast.Store()
    return n


def _is_cidrs(node):
    return isinstance(node, ast.Attribute) and node.attr == "_cidrs" and isinstance(node.value, ast.Name)


def _sets_pseudo(name, args, at):
    return ast.copy_location(ast.Call(func=ast.copy_location(ast.Name(id=name, ctx=ast.Load()), at), args=args, keywords=[]), at)


def _sets_mutates(st, d, fn):
    """does statement st (not looking into nested blocks) change the dict written `d` (dotted path)?"""
    if isinstance(st, (ast.Assign, ast.AugAssign)):
        tgts = st.targets if isinstance(st, ast.Assign) else [st.target]
        return any(dotted(t.value if isinstance(t, ast.Subscript) else t) == d for t in tgts)
    if isinstance(st, ast.Delete):
        return any(isinstance(t, ast.Subscript) and dotted(t.value) == d for t in st.targets)
    if isinstance(st, ast.Expr) and isinstance(st.value, ast.Call) and isinstance(st.value.func, ast.Attribute):
        f = st.value.func
        if dotted(f.value) == d:
            return True
        if fn is not None and d == "self._cidrs" and dotted(f) == "self." + f.attr and fn.method_mutates(f.attr):
            return True
    return False


def _sets_check_iteration(loop, d, fn):
    """a `for` over the keys of dict d: d may be changed in the body only directly before `return` / `break`"""
    def deep(st):
        return _sets_mutates(st, d, fn) or any(_sets_mutates(n, d, fn) for n in ast.walk(st) if isinstance(n, ast.stmt))

    def walk(stmts):
        stmts = [st for st in stmts if not isinstance(st, ast.Assert)]
        for i, st in enumerate(stmts):
            if not deep(st):
                continue
            # after a change of d the block must leave the loop: it ends with return / break and has no continue after the change
            if isinstance(stmts[-1], (ast.Return, ast.Break)) and not any(isinstance(n, ast.Continue) for x in stmts[i + 1:] for n in ast.walk(x)):
                continue
            if isinstance(st, ast.If):                  # .. or each branch of an `if` leaves by itself
                walk(st.body)
                walk(st.orelse)
                continue
            bad(st, "the dict %s is changed while a loop runs over its keys" % d)
    walk(loop.body)


class SetsPrepare(ast.NodeTransformer):
    def __init__(self, fn):
        self.fn, self.n = fn, 0

    @staticmethod
    def place(t):
        return isinstance(t, ast.Name) or _is_cidrs(t)

    @staticmethod
    def inline_search_loop(f):
        """X = None [; Y = None] / for v in D: if c: X = ..; Y = ..; break / if X is not None: body   (the last statements of f)
        -> for v in D: if c: X = ..; Y = ..; body; return      (X, Y used nowhere else; loop variables of `body` renamed apart)"""
        b = f.body
        if len(b) < 3 or not (isinstance(b[-1], ast.If) and not b[-1].orelse and isinstance(b[-2], ast.For) and not b[-2].orelse):
            return
        t, loop = b[-1].test, b[-2]
        if not (isinstance(t, ast.Compare) and len(t.ops) == 1 and isinstance(t.ops[0], ast.IsNot) and isinstance(t.left, ast.Name)
                and isinstance(t.comparators[0], ast.Constant) and t.comparators[0].value is None):
            return
        k = len(b) - 2
        names = []
        while k > 0 and (isinstance(b[k - 1], ast.Assign) and len(b[k - 1].targets) == 1 and isinstance(b[k - 1].targets[0], ast.Name)
                         and isinstance(b[k - 1].value, ast.Constant) and b[k - 1].value.value is None):
            k -= 1
            names.append(b[k].targets[0].id)
        inner = loop.body[0] if len(loop.body) == 1 else None
        if (t.left.id not in names or not (isinstance(inner, ast.If) and not inner.orelse and inner.body and isinstance(inner.body[-1], ast.Break))
                or any(isinstance(n, (ast.Break, ast.Continue, ast.Return)) for st in inner.body[:-1] + b[-1].body for n in ast.walk(st))):
            return
        elsewhere = [n for st in b[:k] + [inner.test, loop.iter] for n in ast.walk(st) if isinstance(n, ast.Name) and n.id in names]
        stores = [n for st in inner.body for n in ast.walk(st) if isinstance(n, ast.Name) and n.id in names and isinstance(n.ctx, ast.Store)]
        if elsewhere or {n.id for n in stores} != set(names) or not isinstance(loop.target, ast.Name):
            return
        moved = b[-1].body
        for st in moved:                            # loop variables of the moved statements that clash with the search loop's
            for n in ast.walk(st):
                if isinstance(n, ast.For) and isinstance(n.target, ast.Name) and n.target.id == loop.target.id:
                    new = n.target.id + "_2"
                    for m in ast.walk(n):
                        if isinstance(m, ast.Name) and m.id == loop.target.id:
                            m.id = new
        inner.body = inner.body[:-1] + moved + [ast.copy_location(ast.Return(value=None), inner.body[-1])]
        f.body = b[:k] + [loop]

    def visit_FunctionDef(self, f):
        self.inline_search_loop(f)
        f = self.generic_visit(f)
        for n in ast.walk(f):
            for name in ("body", "orelse"):
                if isinstance(getattr(n, name, None), list) and not getattr(n, name) and (name == "body"):
                    setattr(n, name, [ast.copy_location(ast.Pass(), n)])
        return f

    def visit_Return(self, st):
        st = self.generic_visit(st)
        v = st.value            # return <dict>.popitem()[0]: the dict loses its last key, which is returned
        if (isinstance(v, ast.Subscript) and const_int(v.slice) == 0 and isinstance(v.value, ast.Call) and isinstance(v.value.func, ast.Attribute)
                and v.value.func.attr == "popitem" and not v.value.args and not v.value.keywords and dotted(v.value.func.value) == "self._cidrs"):
            d = v.value.func.value
            tgt = ast.Tuple(elts=[_sets_store(d), ast.Name(id="sets_popped", ctx=ast.Store())], ctx=ast.Store())
            a = ast.copy_location(ast.Assign(targets=[tgt], value=_sets_pseudo("__sets_dict_popitem", [_sets_load(d)], st)), st)
            return [a, ast.copy_location(ast.Return(value=ast.Name(id="sets_popped", ctx=ast.Load())), st)]
        return st

    def visit_Assign(self, st):
        st = self.generic_visit(st)
        t = st.targets[0] if len(st.targets) == 1 else None
        v = st.value
        if (isinstance(v, ast.Call) and isinstance(v.func, ast.Name) and v.func.id in SETS_OUTPARAM and isinstance(t, ast.Name)
                and not v.keywords and len(v.args) > SETS_OUTPARAM[v.func.id] and isinstance(v.args[SETS_OUTPARAM[v.func.id]], ast.Name)):
            out = v.args[SETS_OUTPARAM[v.func.id]].id          # x = f(.., l) for an out-parameter l: l, x = f(.., l)
            st.targets = [ast.copy_location(ast.Tuple(elts=[ast.Name(id=out, ctx=ast.Store()), t], ctx=ast.Store()), t)]
            return st
        if isinstance(t, ast.Subscript):
            if not (self.place(t.value) and isinstance(st.value, ast.Constant) and st.value.value is True
                    and not isinstance(t.slice, ast.Slice)):
                bad(st, "subscript assignment other than <dict>[k] = True")
            return ast.copy_location(ast.Assign(targets=[_sets_store(t.value)],
                                                value=_sets_pseudo("__sets_dict_set", [_sets_load(t.value), t.slice], st)), st)
        return st

    def visit_Delete(self, st):
        out = []
        for t in st.targets:
            if not (isinstance(t, ast.Subscript) and self.place(t.value) and not isinstance(t.slice, ast.Slice)):
                bad(st, "del other than del <dict>[k]")
            out.append(ast.copy_location(ast.Assign(targets=[_sets_store(t.value)],
                                                    value=_sets_pseudo("__sets_dict_del", [_sets_load(t.value), t.slice], st)), st))
        return out

    def visit_Assert(self, st):
        return None

    def visit_Compare(self, n):
        n = self.generic_visit(n)
        if (len(n.ops) == 1 and isinstance(n.ops[0], (ast.In, ast.NotIn)) and isinstance(n.comparators[0], ast.Name)
                and n.comparators[0].id == "self" and self.fn is not None and self.fn.recv == "IPSet"):
            at = n.comparators[0]       # x in self: the receiver, as the IPSet whose dict is self._cidrs
            cid = ast.copy_location(ast.Attribute(value=ast.copy_location(ast.Name(id="self", ctx=ast.Load()), at), attr="_cidrs", ctx=ast.Load()), at)
            n.comparators = [_sets_pseudo("__sets_self", [cid], at)]
        return n

    def visit_Call(self, n):
        n = self.generic_visit(n)
        if dotted(n.func) == "self.__class__" and not n.args and not n.keywords and self.fn is not None and self.fn.recv == "IPSet":
            n.func = ast.copy_location(ast.Name(id="IPSet", ctx=ast.Load()), n.func)      # the receiver class is IPSet
        return n

    def visit_Expr(self, st):
        v = st.value
        if isinstance(v, ast.Call) and isinstance(v.func, ast.Attribute) and not v.keywords:
            f = v.func
            if f.attr == "update" and _is_cidrs(f.value) and len(v.args) == 1:
                return ast.copy_location(ast.Assign(
                    targets=[_sets_store(f.value)], value=_sets_pseudo("__sets_dict_update", [_sets_load(f.value), v.args[0]], st)), st)
            if (isinstance(f.value, ast.Name) and f.value.id != "self" and self.fn is not None and self.fn.recv == "IPSet"
                    and self.fn.mod.lookup("IPSet", f.attr) and self.fn.method_mutates(f.attr)):
                v.state_call = True         # x.m(..) for a local IPSet x and a state-assigning m: x = x.m(..)
                return ast.copy_location(ast.Assign(targets=[_sets_store(f.value)], value=v), st)
        return self.generic_visit(st)

    def visit_For(self, st):
        if _is_cidrs(st.iter):
            _sets_check_iteration(st, dotted(st.iter), self.fn)
        st = self.generic_visit(st)
        if _is_cidrs(st.iter):
            st.iter = _sets_pseudo("__sets_dict_keys", [st.iter], st.iter)
        if isinstance(st.target, ast.Tuple):
            self.n += 1
            name = "sets_item%d" % self.n
            unpack = ast.copy_location(ast.Assign(targets=[st.target], value=ast.copy_location(ast.Name(id=name, ctx=ast.Load()), st.target)), st.target)
            st.target = ast.copy_location(ast.Name(id=name, ctx=ast.Store()), st.target)
            st.body = [unpack] + st.body
        return st


class SetsGenerator(ast.NodeTransformer):
    """a generator function whose callers consume it at once (`for .. in g(..)`), read as the function that returns the list of
    what it yields: sets_yield = [] first, `yield e` -> sets_yield.append(e), `return` / the end -> return sets_yield"""
    def visit_Expr(self, st):
        if isinstance(st.value, ast.Yield):
            if st.value.value is None:
                bad(st, "yield without a value")
            call = ast.Call(func=ast.Attribute(value=ast.Name(id="sets_yield", ctx=ast.Load()), attr="append", ctx=ast.Load()),
                            args=[st.value.value], keywords=[])
            return ast.copy_location(ast.Expr(value=call), st)
        return st

    def visit_Return(self, st):
        if st.value is not None:
            bad(st, "return with a value in a generator")
        return ast.copy_location(ast.Return(value=ast.Name(id="sets_yield", ctx=ast.Load())), st)

    def visit_Yield(self, n):
        bad(n, "yield used as an expression")

    def visit_YieldFrom(self, n):
        bad(n, "yield from")


class SetsOutParam(ast.NodeTransformer):
    def __init__(self, name):
        self.name = name

    def visit_Return(self, st):
        if st.value is None:
            bad(st, "return without a value in a function with an out-parameter")
        st.value = ast.copy_location(ast.Tuple(elts=[ast.Name(id=self.name, ctx=ast.Load()), st.value], ctx=ast.Load()), st)
        return st


def sets_prepare(f, fn, mod=None):
    import copy
    f = copy.deepcopy(f)
    if any(isinstance(n, (ast.Yield, ast.YieldFrom)) for n in ast.walk(f)):
        if any(isinstance(n, (ast.FunctionDef, ast.Lambda)) and n is not f for n in ast.walk(f)):
            bad(f, "generator with a nested function")
        f = SetsGenerator().visit(f)
        first = 1 if (f.body and isinstance(f.body[0], ast.Expr) and isinstance(f.body[0].value, ast.Constant)) else 0
        init = ast.copy_location(ast.Assign(targets=[ast.Name(id="sets_yield", ctx=ast.Store())], value=ast.List(elts=[], ctx=ast.Load())), f.body[first])
        last = ast.copy_location(ast.Return(value=ast.Name(id="sets_yield", ctx=ast.Load())), f.body[-1])
        last.lineno = last.end_lineno = f.end_lineno
        f.body = f.body[:first] + [init] + f.body[first:] + [last]
    gens = {g.name for g in (mod.tree.body if mod is not None else []) if isinstance(g, ast.FunctionDef)
            and any(isinstance(n, (ast.Yield, ast.YieldFrom)) for n in ast.walk(g))}
    whole = {id(n.iter) for n in ast.walk(f) if isinstance(n, ast.For) and not n.orelse
             and not any(isinstance(x, (ast.Break, ast.Return)) for st in n.body for x in ast.walk(st))}
    for n in ast.walk(f):
        if isinstance(n, ast.Call) and isinstance(n.func, ast.Name) and n.func.id in gens and id(n) not in whole:
            bad(n, "the generator %s is not consumed at once by a `for` without break / return" % n.func.id)
    if f.name in SETS_OUTPARAM and fn is None:
        a = f.args.args[SETS_OUTPARAM[f.name]].arg
        if not isinstance(f.body[-1], ast.Return):
            bad(f, "function with an out-parameter that may fall off its end")
        f = SetsOutParam(a).visit(f)
    return ast.fix_missing_locations(SetsPrepare(fn).visit(f))


def _sets_on(self):
    return self.tr.out in SETS_FILES


def sets_ipset_var(self, node, env):
    return isinstance(node, ast.Name) and node.id in env and env[node.id][0] == "ipset"


def sets_rhs(self, node, env):
    """the expression forms of the sets units; None: not one of them (the general translation applies)"""
    if isinstance(node, ast.Dict) and not node.keys:
        return ("dict", "[]")
    if isinstance(node, ast.Dict) and len(node.keys) == 1 and isinstance(node.values[0], ast.Constant) and node.values[0].value is True:
        (tk, kt) = self.ex(node.keys[0], env)           # {k: True}
        if tk != "net":
            bad(node, "dict literal with a key of kind %s" % show(tk))
        return ("dict", "(py_dict_set [] %s)" % kt)
    if isinstance(node, ast.Attribute) and sets_ipset_var(self, node.value, env):
        t = env[node.value.id][1]
        if node.attr == "_cidrs":
            return ("dict", t)
        r = self.mod.lookup("IPSet", node.attr)
        if r and r[2]:
            return self.generated(node, "IPSet", node.attr, t, [])
        bad(node, "attribute %s of an IPSet" % node.attr)
    if isinstance(node, ast.Call):
        return sets_call(self, node, env)
    if isinstance(node, ast.ListComp) and len(node.generators) == 1:
        g = node.generators[0]                              # [e for x in xs] with a pure e: map (fun x => e) xs
        if g.ifs or g.is_async or not isinstance(g.target, ast.Name) or g.target.id in env:
            bad(node, "list comprehension other than [e for x in xs] with a fresh x")
        (tl, l) = self.ex(g.iter, env)
        if tl == "dict":                                    # over a dict: its keys
            tl = ("list", Cell("net"))
        elem = tl[1].find().t if is_list(tl) else None
        if elem is None:
            bad(node, "comprehension over %s" % show(tl))
        cn, lenv = self.bind_local(g.target, g.target.id, elem, env, g.iter)
        self.nohoist += 1
        (te, e) = self.ex(node.elt, lenv)
        self.nohoist -= 1
        if not is_value(te):
            bad(node, "comprehension element of kind %s" % show(te))
        return (("list", Cell(te)), "(map (fun %s => %s) %s)" % (cn, e, l))
    if isinstance(node, ast.Tuple) and node.elts and isinstance(node.ctx, ast.Load):
        items = [self.ex(x, env) for x in node.elts]        # a tuple of values; an IPAddress component is its pair (version, value)
        if any(ty != "obj" and not is_value(ty) for ty, _ in items):
            bad(node, "tuple component of kind %s" % [show(ty) for ty, _ in items if ty != "obj" and not is_value(ty)][0])
        return (("tup", tuple(ty for ty, _ in items)), tuple_term([t[3] if ty == "obj" else t for ty, t in items]))
    if isinstance(node, ast.Subscript):
        snap, pre0 = self.snapshot(), list(self.pre)
        ty, t = self.ex(node.value, env)
        sl = node.slice
        if is_list(ty) and isinstance(sl, ast.Slice):
            k = const_int(sl.lower) if sl.lower is not None else None
            if k is not None and k >= 0 and sl.upper is None and sl.step is None:
                return (("list", ty[1]), "(py_list_from %d %s)" % (k, t))            # l[k:]
        elif is_list(ty):
            elem = ty[1].find().t
            if elem is None:
                bad(node, "index into a list whose element type is not known yet")
            return ("out", elem, "(py_index %s %s)" % (t, self.int_(sl, env)))      # l[i]: IndexError outside
        elif ty == "iprange" and not isinstance(sl, ast.Slice):
            t0 = BY_OUT.get("pysrc_listlike_gen.v")                                  # IPRange.__getitem__ for an int index
            if t0 is None:
                bad(node, "IPRange.__getitem__ is not translated")
            d = t0.get("IPRange", "__getitem__:int", node)
            self.depfns.append(d)
            a, b, c = self.fresh(), self.fresh(), self.fresh()
            return ("out", d.kind, "(let '(%s, %s, %s) := %s in %s %s (width %s) %s %s %s)" % (a, b, c, t, d.cname, a, a, b, c, self.int_(sl, env)))
        elif ty == "net" and not isinstance(sl, ast.Slice):
            t0 = BY_OUT.get("pysrc_listlike_gen.v")                                  # IPNetwork.__getitem__ for an int index
            if t0 is None:
                bad(node, "IPNetwork.__getitem__ is not translated")
            d = t0.get("IPNetwork", "__getitem__:int", node)
            self.depfns.append(d)
            return ("out", d.kind, "(%s (nver %s) (width (nver %s)) (nval %s) (nplen %s) %s)" % (d.cname, t, t, t, t, self.int_(sl, env)))
        self.restore(snap)
        self.pre = pre0
        return None
    if isinstance(node, ast.Compare) and len(node.ops) == 1:
        op = node.ops[0]
        snap, pre0 = self.snapshot(), list(self.pre)
        if isinstance(op, (ast.In, ast.NotIn)):
            (ta, a), (tb, b) = self.ex(node.left, env), self.ex(node.comparators[0], env)
            if tb in ("dict", "ipset", "net"):
                if ta != "net":
                    bad(node, "membership test of %s" % show(ta))
                if tb == "dict":
                    r = ("bool", "(py_dict_mem %s %s)" % (b, a))                     # key lookup
                elif tb == "ipset":
                    r = self.generated(node, "IPSet", "__contains__", b, [("net", a)])
                else:
                    r = self.generated(node, "IPNetwork", "__contains__", "(nver %s) (width (nver %s)) (nval %s) (nplen %s)" % (b, b, b, b),
                                       [("operand", "(ONet (nver %s) (nval %s) (nplen %s))" % (a, a, a))])
                if r[0] == "out":
                    h = self.fresh()
                    self.hoist(node, ("bind", h, r[2]))
                    r = ("bool", h)
                return ("bool", "(negb %s)" % r[1]) if isinstance(op, ast.NotIn) else r
        elif isinstance(op, (ast.Eq, ast.NotEq, ast.Lt)):
            (ta, a), (tb, b) = self.ex(node.left, env), self.ex(node.comparators[0], env)
            t = None
            if ta == "net" and tb == "net":         # BaseIP.__eq__ compares key(), BaseIP.__lt__ compares sort_key()
                t = "(py_net_ltb %s %s)" % (a, b) if isinstance(op, ast.Lt) else "(net_key_eqb %s %s)" % (a, b)
            elif ta == "dict" and tb == "dict" and not isinstance(op, ast.Lt):
                t = "(py_dict_eqb %s %s)" % (a, b)
            if t is not None:
                return ("bool", "(negb %s)" % t if isinstance(op, ast.NotEq) else t)
        self.restore(snap)
        self.pre = pre0
    return None


def sets_call(self, node, env):
    f = node.func
    name = f.id if isinstance(f, ast.Name) and f.id not in env else None
    plain = not node.keywords
    if name in ("__sets_dict_set", "__sets_dict_del", "__sets_dict_update", "__sets_dict_keys"):
        (td, d) = self.ex(node.args[0], env)
        if td != "dict":
            bad(node, "dict operation on %s" % show(td))
        if name == "__sets_dict_keys":
            return (("list", Cell("net")), d)
        (tk, kt) = self.ex(node.args[1], env)
        if tk != ("dict" if name == "__sets_dict_update" else "net"):
            bad(node, "dict operation with %s" % show(tk))
        if name == "__sets_dict_del":
            return ("out", "dict", "(py_dict_del %s %s)" % (d, kt))
        return ("dict", "(%s %s %s)" % ("py_dict_set" if name == "__sets_dict_set" else "py_dict_update", d, kt))
    if name == "__sets_dict_popitem":
        (td, d) = self.ex(node.args[0], env)
        if td != "dict":
            bad(node, "popitem() of %s" % show(td))
        return ("out", ("tup", ("dict", "net")), "(py_dict_popitem %s)" % d)
    if name == "__sets_self":
        (td, d) = self.ex(node.args[0], env)
        return ("ipset", d)
    if name == "_dict_keys" and plain and len(node.args) == 1 and self.mod.imports.get(name) == "netaddr.compat._dict_keys":
        (td, d) = self.ex(node.args[0], env)            # compat: lambda x: list(x.keys()) (Python 3) / x.keys() (Python 2)
        if td != "dict":
            bad(node, "_dict_keys of %s" % show(td))
        return (("list", Cell("net")), d)
    if name == "sorted" and plain and len(node.args) == 1 and not self.mod.toplevel("sorted"):
        snap, pre0 = self.snapshot(), list(self.pre)
        (td, d) = self.ex(node.args[0], env)
        if td == "dict":
            return (("list", Cell("net")), "(py_sorted_nets %s)" % d)   # IPNetwork ordering: BaseIP.__lt__ on sort_key()
        self.restore(snap)
        self.pre = pre0
        return None
    if name == "len" and plain and len(node.args) == 1 and not self.mod.toplevel("len"):
        snap, pre0 = self.snapshot(), list(self.pre)
        (td, d) = self.ex(node.args[0], env)
        if td == "dict":
            return ("int", "(Z.of_nat (List.length %s))" % d)           # the number of keys
        self.restore(snap)
        self.pre = pre0
        return None
    if name == "bool" and plain and len(node.args) == 1 and not self.mod.toplevel("bool"):
        snap, pre0 = self.snapshot(), list(self.pre)
        (td, d) = self.ex(node.args[0], env)
        if td == "dict":
            return ("bool", "(py_nonempty %s)" % d)
        self.restore(snap)
        self.pre = pre0
        return None
    if name == "sum" and plain and len(node.args) == 1 and not self.mod.toplevel("sum") and isinstance(node.args[0], ast.ListComp):
        lc = node.args[0]                               # sum([<int> for x in xs])
        g = lc.generators
        if not (len(g) == 1 and not g[0].ifs and not g[0].is_async and isinstance(g[0].target, ast.Name) and g[0].target.id not in env):
            bad(node, "sum() of something other than [<int> for x in xs]")
        it = g[0].iter
        (tl, l) = self.ex(_sets_pseudo("__sets_dict_keys", [it], it) if (_is_cidrs(it) or (isinstance(it, ast.Name) and env.get(it.id, ("",))[0] == "dict")) else it, env)
        elem = tl[1].find().t if is_list(tl) else None
        if elem is None:
            bad(node, "sum() over %s" % show(tl))
        cn, lenv = self.bind_local(g[0].target, g[0].target.id, elem, env, it)
        self.nohoist += 1
        e = self.int_(lc.elt, lenv)
        self.nohoist -= 1
        return ("int", "(py_sum (map (fun %s => %s) %s))" % (cn, e, l))
    if dotted(f) == "dict.fromkeys" and "dict" not in env and not self.mod.toplevel("dict") and plain and len(node.args) == 2:
        if not (isinstance(node.args[1], ast.Constant) and node.args[1].value is True):
            bad(node, "dict.fromkeys(l, v) with v other than True")
        src = node.args[0]
        if (isinstance(src, ast.GeneratorExp) and len(src.generators) == 1 and not src.generators[0].ifs and isinstance(src.elt, ast.Name)
                and isinstance(src.generators[0].target, ast.Name) and src.elt.id == src.generators[0].target.id and src.elt.id not in env):
            src = src.generators[0].iter                # (x for x in l), consumed at once: l
        if isinstance(src, ast.GeneratorExp):
            # (e for x in l) / (e for a, b, c in l), consumed at once, where e may raise: py_map_o (the first exception wins)
            g = src.generators
            names = [g[0].target] if isinstance(g[0].target, ast.Name) else list(getattr(g[0].target, "elts", []))
            if not (len(g) == 1 and not g[0].ifs and not g[0].is_async and names and all(isinstance(x, ast.Name) and x.id not in env for x in names)):
                bad(node, "generator expression other than (e for x in l) / (e for a, b in l) with fresh names")
            (tl, l) = self.ex(g[0].iter, env)
            elem = tl[1].find().t if is_list(tl) else None
            etys = [elem] if isinstance(g[0].target, ast.Name) else (list(elem[1]) if isinstance(elem, tuple) and elem[0] == "tup" else None)
            if elem is None or etys is None or len(etys) != len(names) or any(not is_value(t) for t in etys):
                bad(node, "generator expression over %s" % show(tl))
            lenv, cns = env, []
            for x, xty in zip(names, etys):
                cn, lenv = self.bind_local(x, x.id, xty, lenv, g[0].iter)
                cns.append(cn)
            saved, self.pre = self.pre, []
            r = self.rhs(src.elt, lenv)
            inner, self.pre = self.pre, saved
            if inner or r[0] != "out" or r[1] != "net":
                bad(node, "generator expression whose element is not one call that makes an IPNetwork")
            pat = cns[0] if isinstance(g[0].target, ast.Name) else "'(%s)" % ", ".join(cns)
            h = self.fresh()
            self.hoist(node, ("bind", h, "(py_map_o (fun %s => %s) %s)" % (pat, r[2], l)))
            return ("dict", "(py_dict_fromkeys %s)" % h)
        (tl, l) = self.ex(src, env)
        if not is_list(tl):
            bad(node, "dict.fromkeys of %s" % show(tl))
        unify(node, tl, ("list", Cell("net")), "dict.fromkeys")
        return ("dict", "(py_dict_fromkeys %s)" % l)
    if plain and not node.args and ((name == "IPSet" and "IPSet" in self.mod.classes) or (dotted(f) == "self.__class__" and self.recv == "IPSet")):
        # IPSet(): a new object (no state yet: the empty list) initialised by the translated __init__ for iterable None, flags 0
        node.state_call = True                          # the state it assigns is that of the new object
        return sets_method_call(self, node, "__init__", "(@nil net)", [("none", "tt")])
    if name == "cidr_merge" and plain and len(node.args) == 1 and self.mod.imports.get(name) == "netaddr.ip.cidr_merge":
        (tl, l) = self.ex(node.args[0], env)            # not translated: the hand model (SrcPreludeSplitter.py_cidr_merge); a dict = its keys
        if tl != "dict":
            if not is_list(tl):
                bad(node, "cidr_merge of %s" % show(tl))
            unify(node, tl, ("list", Cell("net")), "cidr_merge")
        return ("out", ("list", Cell("net")), "(py_cidr_merge %s)" % l)
    if name == "iprange_to_cidrs" and plain and len(node.args) == 2 and self.mod.imports.get(name) == "netaddr.ip.iprange_to_cidrs":
        args = [self.ex(x, env) for x in node.args]
        if all(ty == "obj" for ty, _ in args):          # IPAddress arguments: the callee's IPNetwork(start) makes them /width networks
            return self.generated(node, None, name, "", [("net", "(py_net_of_addr %s)" % t[3]) for _, t in args])
        return self.generated(node, None, name, "", args)
    if name == "IPRange" and plain and len(node.args) == 2 and self.mod.imports.get(name) == "netaddr.ip.IPRange":
        args = [self.ex(x, env) for x in node.args]     # not translated: the hand model of IPRange.__init__ on two IPAddress objects
        if any(ty != "obj" for ty, _ in args):
            bad(node, "IPRange() of something other than two IPAddress objects")
        return ("out", ("tup", ("int", "int", "int")), "(py_iprange %s %s)" % (args[0][1][3], args[1][1][3]))
    if isinstance(f, ast.Attribute) and isinstance(f.value, ast.Name) and env.get(f.value.id, ("",))[0] == "net" and plain:
        x, m = env[f.value.id][1], f.attr               # x.m(..) for an IPNetwork x
        r = self.tr.modof("IPNetwork").lookup("IPNetwork", m)
        if not r or r[2]:
            bad(node, "call of %s.%s" % (f.value.id, m))
        if m in ("previous", "next") and not node.args:
            if [a.arg for a in r[1].args.args] != ["self", "step"] or [const_int(d) for d in r[1].args.defaults] != [1]:
                bad(node, "IPNetwork.%s is not %s(self, step=1)" % (m, m))
            return ("out", "net", "(py_net_%s %s)" % (m, x))       # not translated: the hand model (Sets.net_previous / net_next)
        d = self.tr.get("IPNetwork", m, node)
        args = [self.ex(a, env) for a in node.args]
        dflt, params = d.f.args.defaults, d.f.args.args[1:]
        for i in range(len(args), len(d.params)):
            j = i - (len(params) - len(dflt))
            if j < 0 or const_int(dflt[j]) is None:
                bad(node, "call of IPNetwork.%s without argument %s" % (m, params[i].arg))
            args = args + [("int", "%d" % const_int(dflt[j]))]
        return self.generated(node, "IPNetwork", m, "(nver %s) (width (nver %s)) (nval %s) (nplen %s)" % (x, x, x, x), args)
    if isinstance(f, ast.Attribute) and sets_ipset_var(self, f.value, env):
        r = self.mod.lookup("IPSet", f.attr)            # x.m(..) for an IPSet x other than self
        if not r or r[2] or node.keywords:
            bad(node, "call of %s.%s" % (f.value.id, f.attr))
        return sets_method_call(self, node, f.attr, env[f.value.id][1], [self.ex(x, env) for x in node.args])
    if (self.recv == "IPSet" and isinstance(f, ast.Attribute) and dotted(f) == "self." + f.attr and f.attr != "__class__" and plain
            and not sets_listed("IPSet", f.attr) and sets_variants(f.attr)):
        k = len(STATEVARS["IPSet"])                     # self.m(..) for a method translated in variants (by the type of its argument)
        return sets_method_call(self, node, f.attr, " ".join(self.ex(x, env)[1] for x in node.args[:k]), [self.ex(x, env) for x in node.args[k:]], "dict")
    return None


def sets_listed(recv, name):
    return any(w[:2] == (recv, name) for u in SETS_UNITS for w in u[4])


def sets_variants(name):
    return [w[1] for u in SETS_UNITS for w in u[4] if w[0] == "IPSet" and w[1].partition(":")[0] == name and ":" in w[1]]


def sets_method_call(self, node, name, state, args, newstate="ipset"):
    """call of IPSet method `name` on the IPSet `state`: the variant `name:<type of the first argument>` if the method is
    translated in variants; missing trailing arguments take the (int constant) defaults of the definition"""
    if not sets_listed("IPSet", name):
        ty = args[0][0] if args else "none"
        v = "%s:%s" % (name, ty if isinstance(ty, str) else ty[0])
        if v not in sets_variants(name):
            bad(node, "call of IPSet.%s with %s: no such variant is translated" % (name, show(ty)))
        name = v
    d = self.tr.get("IPSet", name, node)
    dflt = d.f.args.defaults
    params = d.f.args.args[len(d.f.args.args) - len(d.params):]
    for i in range(len(args), len(d.params)):
        j = i - (len(params) - len(dflt))
        if j < 0 or const_int(dflt[j]) is None:
            bad(node, "call of IPSet.%s without argument %s, which has no int default" % (name, params[i].arg))
        args = args + [("int", "%d" % const_int(dflt[j]))]
    r = self.generated(node, "IPSet", name, state, args)
    if d.mutating and not d.valued:
        return (r[0], newstate, r[2]) if r[0] == "out" else (newstate, r[1])    # the new state of that IPSet
    return r


def sets_stmt(self, stmts, env, k, after):
    """the statement forms of the sets units; None: not one of them"""
    s, rest = stmts[0], list(stmts[1:])
    go = lambda e: self.block(rest, e, k, after)
    if isinstance(s, ast.Assign) and len(s.targets) == 1 and _is_cidrs(s.targets[0]) and sets_ipset_var(self, s.targets[0].value, env):
        x = s.targets[0].value.id                       # x._cidrs = e for a local IPSet x: x is now the IPSet with that dict
        r = self.rhs(s.value, env)
        pre = self.take_pre()
        if (r[1] if r[0] == "out" else r[0]) != "dict":
            bad(s, "assignment of %s to _cidrs" % show(r[1] if r[0] == "out" else r[0]))
        cn, env = self.bind_local(s, x, "ipset", env, s.value)
        return self.wrap(pre, ("bind", cn, r[2], go(env)) if r[0] == "out" else (go(env) if r[1] == cn else ("let", cn, r[1], go(env))))
    if isinstance(s, ast.Assign) and len(s.targets) == 1 and isinstance(s.targets[0], ast.Tuple) and all(isinstance(x, ast.Name) for x in s.targets[0].elts):
        snap, pre0 = self.snapshot(), list(self.pre)
        r = self.rhs(s.value, env)
        ty = r[1] if r[0] == "out" else r[0]
        if isinstance(ty, tuple) and ty[0] == "tup" and len(ty[1]) == len(s.targets[0].elts) and "obj" in ty[1]:
            pre, names = self.take_pre(), []            # a, b = e where a component is an IPAddress object (a pair)
            for x, xty in zip(s.targets[0].elts, ty[1]):
                cn, env = self.bind_local(x, x.id, xty, env, s.value)
                if xty == "obj":
                    env[x.id] = ("obj", self.objvar(cn))
                names.append(cn)
            return self.wrap(pre, ("bind" if r[0] == "out" else "let", pattern(names), r[2] if r[0] == "out" else r[1], go(env)))
        self.restore(snap)
        self.pre = pre0
    if (isinstance(s, (ast.Assign, ast.AugAssign)) and isinstance((s.targets[0] if isinstance(s, ast.Assign) else s.target), ast.Attribute)):
        tgt = s.targets[0] if isinstance(s, ast.Assign) else s.target
        if (tgt.attr == "prefixlen" and isinstance(tgt.value, ast.Name) and env.get(tgt.value.id, ("",))[0] == "net"
                and (isinstance(s, ast.AugAssign) or len(s.targets) == 1)):
            # x.prefixlen = e on an owned IPNetwork object: through the property's setter _set_prefixlen (range check), then a record update
            c = self.tr.modof("IPNetwork").classes["IPNetwork"]
            props = [st for st in c.body if isinstance(st, ast.Assign) and len(st.targets) == 1 and dotted(st.targets[0]) == "prefixlen"]
            if not (len(props) == 1 and isinstance(props[0].value, ast.Call) and dotted(props[0].value.func) == "property"
                    and len(props[0].value.args) >= 2 and dotted(props[0].value.args[1]) == "_set_prefixlen"):
                bad(s, "IPNetwork.prefixlen is not property(.., _set_prefixlen, ..)")
            x, old = tgt.value.id, env[tgt.value.id][1]
            if not self.owned(x):
                bad(s, "attribute assignment on %s, which may be visible under another name" % x)
            value = s.value if isinstance(s, ast.Assign) else ast.copy_location(ast.BinOp(_sets_load(tgt), s.op, s.value), s)
            e = self.int_(ast.fix_missing_locations(value), env)
            pre = self.take_pre()
            d = self.tr.get("IPNetwork", "_set_prefixlen", s)
            self.depfns.append(d)
            h = self.fresh()
            cn, env = self.bind_local(s, x, "net", env, value)
            return self.wrap(pre, ("bind", h, "(%s (nver %s) (width (nver %s)) (nval %s) (nplen %s) (SInt %s))" % (d.cname, old, old, old, old, e),
                                   ("let", cn, "{| nver := nver %s; nval := nval %s; nplen := %s |}" % (old, old, h), go(env))))
    if isinstance(s, ast.Assign) and isinstance(s.value, ast.Call) and getattr(s.value, "state_call", False) and isinstance(s.value.func, ast.Attribute):
        key = (self.recv, s.value.func.attr)
        if key in SETS_MUTABLE_PARAMS and dotted(s.value.func) == "self." + s.value.func.attr:
            r = self.mod.lookup(*key)
            i = [a.arg for a in r[1].args.args].index(SETS_MUTABLE_PARAMS[key]) - 1 + len(STATEVARS[self.recv])
            a = s.value.args[i] if i < len(s.value.args) else None
            if not isinstance(a, ast.Name) or any(isinstance(n, ast.Name) and n.id == a.id and isinstance(n.ctx, ast.Load)
                                                  for st in rest + after for n in ast.walk(st)):
                bad(s, "the argument of %s, which changes it in place, is read after the call" % key[1])
    if isinstance(s, ast.If):
        t, neg = s.test, False
        if isinstance(t, ast.UnaryOp) and isinstance(t.op, ast.Not):
            t, neg = t.operand, True
        tyname = lambda ty: ty if isinstance(ty, str) else ty[0]
        if (isinstance(t, ast.Compare) and len(t.ops) == 1 and isinstance(t.ops[0], (ast.Is, ast.IsNot)) and isinstance(t.left, ast.Name)
                and isinstance(t.comparators[0], ast.Constant) and t.comparators[0].value is None and t.left.id in self.ptypes_declared
                and t.left.id in env and tyname(env[t.left.id][0]) in SETS_CLASS_OF):
            # <parameter> is None / is not None: decided by the declared type of the parameter
            yes = ((tyname(env[t.left.id][0]) == "none") == isinstance(t.ops[0], ast.Is)) != neg
            return self.block(sets_then(s.body if yes else s.orelse, rest), env, k, after)
        if (isinstance(t, ast.Call) and dotted(t.func) == "isinstance" and len(t.args) == 2 and not t.keywords and isinstance(t.args[0], ast.Name)
                and t.args[0].id in env and tyname(env[t.args[0].id][0]) in SETS_CLASS_OF):
            # isinstance(<parameter>, C) / (C1, C2): decided by the declared type of the parameter
            cs = t.args[1].elts if isinstance(t.args[1], ast.Tuple) else [t.args[1]]
            if any(not isinstance(c, ast.Name) or c.id in env or not (c.id in self.mod.classes or (self.mod.imports.get(c.id) or "").startswith("netaddr.")) for c in cs):
                bad(s, "isinstance against something other than classes of netaddr")
            if any(c.id == "_int_type" for c in cs) and self.mod.imports.get("_int_type") != "netaddr.compat._int_type":
                bad(s, "_int_type is not netaddr.compat._int_type")
            if any(c.id not in SETS_LEAF_CLASSES for c in cs):
                bad(s, "isinstance against %s: not decided by the declared type" % [c.id for c in cs if c.id not in SETS_LEAF_CLASSES][0])
            yes = (SETS_CLASS_OF[tyname(env[t.args[0].id][0])] in [c.id for c in cs]) != neg
            return self.block(sets_then(s.body if yes else s.orelse, rest), env, k, after)
    if (isinstance(s, ast.Try) and len(s.handlers) == 1 and dotted(s.handlers[0].type) == "AttributeError" and not s.orelse and not s.finalbody
            and "AttributeError" not in env and not self.mod.toplevel("AttributeError")
            and all((_is_cidrs(n) and sets_ipset_var(self, n.value, env)) for st in s.body for n in ast.walk(st) if isinstance(n, ast.Attribute))
            and not any(isinstance(n, (ast.Call, ast.Subscript, ast.BinOp)) for st in s.body for n in ast.walk(st))):
        # try: .. / except AttributeError: ..  around a body whose only attribute reads are `_cidrs` of IPSet objects, without calls:
        # the handler is dead code (the parameter is declared an IPSet)
        return self.block(s.body + rest, env, k, after)
    if (isinstance(s, ast.Return) and isinstance(s.value, ast.BoolOp) and isinstance(s.value.op, ast.And) and len(s.value.values) == 2
            and isinstance(s.value.values[0], ast.Compare) and isinstance(s.value.values[1], ast.Call)):
        # return <comparison> and <call that can raise>: the call is evaluated only if the comparison holds
        a, b = s.value.values
        new = ast.copy_location(ast.If(test=a, body=[ast.copy_location(ast.Return(value=b), s)],
                                       orelse=[ast.copy_location(ast.Return(value=ast.copy_location(ast.Constant(value=False), s)), s)]), s)
        return self.block([ast.fix_missing_locations(new)] + rest, env, k, after)
    return None


def sets_then(chosen, rest):
    """the statements that run when a decided `if` takes the branch `chosen`: the rest of the block follows unless the branch
    ends with return / raise"""
    return list(chosen) if chosen and isinstance(chosen[-1], (ast.Return, ast.Raise)) else list(chosen) + rest


def sets_owned(self, x):
    """a local that holds a private copy: every binding is `x = IPNetwork(<name>)` (the copy constructor) and every read is
    x.<attribute> or the left operand of `x in <dict>`: then `x._prefixlen = e` is a plain update of x"""
    bases = {id(n.value) for n in ast.walk(self.f) if isinstance(n, ast.Attribute)}
    bases |= {id(n.left) for n in ast.walk(self.f) if isinstance(n, ast.Compare) and len(n.ops) == 1 and isinstance(n.ops[0], (ast.In, ast.NotIn))}
    bases |= {id(o) for n in ast.walk(self.f) if isinstance(n, ast.Compare) and len(n.ops) == 1 and isinstance(n.ops[0], (ast.Eq, ast.NotEq))
              for o in [n.left] + n.comparators}        # x == y reads key() only
    binds = [st for st in ast.walk(self.f) if isinstance(st, (ast.Assign, ast.AugAssign, ast.For, ast.With, ast.NamedExpr))
             and any(isinstance(n, ast.Name) and n.id == x and isinstance(n.ctx, ast.Store) and id(n) not in bases for n in ast.walk(st))]
    copyctor = lambda st: (isinstance(st, ast.Assign) and len(st.targets) == 1 and isinstance(st.targets[0], ast.Name) and isinstance(st.value, ast.Call)
                           and dotted(st.value.func) == "IPNetwork" and len(st.value.args) == 1 and not st.value.keywords
                           and isinstance(st.value.args[0], ast.Name) and self.mod.imports.get("IPNetwork") == "netaddr.ip.IPNetwork")
    for n in ast.walk(self.f):                       # x as the key of d[x] = True / del d[x] (rewritten by sets_prepare)
        if isinstance(n, ast.Call) and isinstance(n.func, ast.Name) and n.func.id in ("__sets_dict_set", "__sets_dict_del") and len(n.args) == 2:
            bases.add(id(n.args[1]))
    reads_ok = all(id(n) in bases for n in ast.walk(self.f) if isinstance(n, ast.Name) and n.id == x and isinstance(n.ctx, ast.Load))
    if SETS_MUTABLE_PARAMS.get((self.recv, self.pyname)) == x and x in [a.arg for a in self.f.args.args] and not binds and reads_ok:
        def keyop(st, name):
            return (isinstance(st, ast.Assign) and isinstance(st.value, ast.Call) and isinstance(st.value.func, ast.Name)
                    and st.value.func.id == name and len(st.value.args) == 2 and isinstance(st.value.args[1], ast.Name) and st.value.args[1].id == x)
        for blk in [getattr(n, nm) for n in ast.walk(self.f) for nm in ("body", "orelse") if isinstance(getattr(n, nm, None), list)]:
            out = False                                 # is x known to be out of the dict at this point of the block?
            for st in blk:
                if keyop(st, "__sets_dict_del"):
                    out = True
                elif keyop(st, "__sets_dict_set"):
                    out = False
                elif (isinstance(st, (ast.Assign, ast.AugAssign)) and any(
                        isinstance(t, ast.Attribute) and isinstance(t.value, ast.Name) and t.value.id == x
                        for t in (st.targets if isinstance(st, ast.Assign) else [st.target])) and not out):
                    return False
        return True
    return (bool(binds) and all(copyctor(st) for st in binds) and x not in [a.arg for a in self.f.args.args] and reads_ok)


# ---- SRCA hooks
_is_value0 = is_value
_parse_type0 = parse_type
# the class a declared parameter type stands for (IPGlob, the subclass of IPRange, is not told apart: `rng` is not used for
# isinstance tests against IPGlob)
SETS_CLASS_OF = {"ipset": "IPSet", "net": "IPNetwork", "iprange": "IPRange", "none": None, "list": None}
# the classes an isinstance test may name: none of them is a base class of another one of them, and no declared type stands for
# an int (a test against a base class such as BaseIP, or against the subclass IPGlob, is rejected)
SETS_LEAF_CLASSES = ("IPSet", "IPNetwork", "IPRange", "_int_type")


def parse_type(s):
    if s == "list rng":          # a list of (version, first, last) tuples
        return ("list", Cell(("tup", ("int", "int", "int"))))
    return _parse_type0(s)


def is_value(t):
    return t in SETS_VALUE_TYPES or _is_value0(t)


def _wrap(cls, name):
    def deco(new):
        old = getattr(cls, name)

        def wrapped(self, *a, **kw):
            return new(old, self, *a, **kw)
        wrapped.__name__ = name
        setattr(cls, name, wrapped)
        return new
    return deco


@_wrap(Fn, "rhs")
def _srca_rhs(old, self, node, env):
    if _sets_on(self):
        r = sets_rhs(self, node, env)
        if r is not None:
            self.size += 1
            return r
    return old(self, node, env)


@_wrap(Fn, "bool_")
def _srca_bool(old, self, node, env):
    if not _sets_on(self):
        return old(self, node, env)
    ty, t = self.ex(node, env)
    if ty == "bool":
        return t
    if ty == "int":
        return "(negb (%s =? 0))" % t                   # truth value of an int
    if is_list(ty) or ty == "dict":
        return "(py_nonempty %s)" % t
    if ty == "ipset":                                   # truth value of an IPSet: its __nonzero__ / __bool__
        r = self.generated(node, "IPSet", "__nonzero__", t, [])
        if r[0] == "out":
            bad(node, "IPSet.__nonzero__ can raise")
        return r[1]
    bad(node, "bool expression expected, got %s" % show(ty))


@_wrap(Fn, "block")
def _srca_block(old, self, stmts, env, k, after):
    if stmts and _sets_on(self):
        r = sets_stmt(self, stmts, env, k, after)
        if r is not None:
            return r
    return old(self, stmts, env, k, after)


@_wrap(Fn, "loop")
def _srca_loop(old, self, s, rest, env, k, after):
    if _sets_on(self):
        # a loop after an `if` with exits is reached once per branch: number the auxiliary names h<N> from a base that depends on
        # the loop only, so that both translations are the same text (names are lexically scoped; the bases are far apart)
        self.nfresh = 1000 * self.loopno[id(s)]
        if (isinstance(s, ast.For) and isinstance(s.target, ast.Name) and isinstance(s.iter, ast.Name) and is_list(env.get(s.iter.id, ("",))[0])
                and env[s.iter.id][0][1].find().t in SETS_CLASS_OF):
            # `if isinstance(<loop variable>, C): ..` at the top of the body, for a list whose element type is declared: decided here
            # (the dropped branch may rebind the loop variable); the node is our own copy of the function
            elem, body = env[s.iter.id][0][1].find().t, []
            for st in s.body:
                t = st.test if isinstance(st, ast.If) else None
                if (isinstance(t, ast.Call) and dotted(t.func) == "isinstance" and len(t.args) == 2 and not t.keywords
                        and isinstance(t.args[0], ast.Name) and t.args[0].id == s.target.id and not body
                        and all(isinstance(c, ast.Name) and c.id not in env for c in (t.args[1].elts if isinstance(t.args[1], ast.Tuple) else [t.args[1]]))):
                    cs = [c.id for c in (t.args[1].elts if isinstance(t.args[1], ast.Tuple) else [t.args[1]])]
                    if any(not (c in self.mod.classes or (self.mod.imports.get(c) or "").startswith("netaddr.")) or c not in SETS_LEAF_CLASSES for c in cs):
                        bad(st, "isinstance against something other than IPSet / IPNetwork / IPRange / _int_type")
                    body += st.body if SETS_CLASS_OF[elem] in cs else st.orelse
                else:
                    body.append(st)
            s.body = body or [ast.copy_location(ast.Pass(), s)]
    return old(self, s, rest, env, k, after)


@_wrap(Fn, "owned")
def _srca_owned(old, self, x):
    return (_sets_on(self) and sets_owned(self, x)) or old(self, x)


@_wrap(Fn, "method_mutates")
def _srca_method_mutates(old, self, name, seen=()):
    if old(self, name, seen):
        return True
    r = self.mod.lookup(self.recv, name) if self.recv == "IPSet" else None
    if r is None:
        return False
    paths = {"self." + a for a, _ in STATEVARS[self.recv]}      # self._cidrs[k] = True / del self._cidrs[k]
    return any(isinstance(n, ast.Subscript) and not isinstance(n.ctx, ast.Load) and dotted(n.value) in paths for n in ast.walk(r[1]))


@_wrap(Fn, "state_as_locals")
def _srca_state_as_locals(old, self, f):
    return old(self, sets_prepare(f, self, self.mod) if self.recv == "IPSet" else f)


@_wrap(Module, "function")
def _srca_function(old, self, name):
    f = old(self, name)
    return sets_prepare(f, None, self) if self.fn == SETSFILE else f


@_wrap(Translator, "__init__")
def _srca_tr_init(old, self, *a, **kw):
    old(self, *a, **kw)
    if self.out:
        BY_OUT[self.out] = self


@_wrap(Translator, "get")
def _srca_tr_get(old, self, recv, name, node=None):
    if self.out in SETS_FILES and any(w[:2] == (recv, name) for w in SETS_IP_UNIT[4]) and BY_OUT.get(SETS_IP_UNIT[1]) is not None:
        return BY_OUT[SETS_IP_UNIT[1]].get(recv, name, node)
    if self.out in SETS_FILES and not any(w[:2] == (recv, name) for w in self.specs):
        for out in SETS_FILES:                          # a definition of an earlier sets unit
            t = BY_OUT.get(out)
            if t is not None and t is not self and any(w[:2] == (recv, name) for w in t.specs):
                return t.get(recv, name, node)
    return old(self, recv, name, node)


def constants(strategy=STRATEGY):
    """width / version / max_int of the given strategy modules, as Gallina constants."""
    out = []
    for m, fn in strategy:
        mod = Module(fn)
        known = {}
        for c in ("width", "version", "max_int"):
            ds = [a for a in mod.tree.body if isinstance(a, (ast.Assign, ast.AugAssign, ast.AnnAssign))
                  and any(isinstance(n, ast.Name) and n.id == c for t in (a.targets if isinstance(a, ast.Assign) else [a.target])
                          for n in ast.walk(t))]
            if len(ds) != 1 or not isinstance(ds[0], ast.Assign) or len(ds[0].targets) != 1 or not isinstance(ds[0].targets[0], ast.Name):
                bad(ds[0] if ds else None, "module constant %s is not assigned exactly once at top level" % c, fn)

            def ev(n):
                if isinstance(n, ast.Constant) and isinstance(n.value, int) and not isinstance(n.value, bool):
                    return literal(n, mod.text), n.value
                if isinstance(n, ast.Name) and n.id in known:
                    return "src_%s_%s" % (m, n.id), known[n.id]
                if isinstance(n, ast.BinOp) and type(n.op) in (ast.Add, ast.Sub, ast.Mult, ast.Pow):
                    (a, x), (b, y) = ev(n.left), ev(n.right)
                    if isinstance(n.op, ast.Pow) and y < 0:
                        bad(n, "negative exponent", fn)
                    return ARITH[type(n.op)] % (a, b), {ast.Add: x + y, ast.Sub: x - y, ast.Mult: x * y, ast.Pow: x ** max(y, 0)}[type(n.op)]
                bad(n, "constant expression %s" % type(n).__name__, fn)
            term, known[c] = ev(ds[0].value)
            out.append("(* %s: %s, line %d *)\nDefinition src_%s_%s : Z := %s.\n" % (fn, c, ds[0].lineno, m, c, term))
    return out


HEAD = ("(* GENERATED on every run by harness/gen/pysrc.py from the text of %s%s\n"
        "   of the working tree; do not edit.  Proofs/GenOk_Src*.v prove each definition equal to the hand-written model. *)\n"
        "From Coq Require Import ZArith List Bool.\nFrom NV Require Import Base.PyVal Model.Ip Model.SrcPrelude%s.\n"
        "Import ListNotations.\nOpen Scope Z_scope.\n\n")


def failures(tr, failed, mine):
    """a function outside the subset keeps its name, with a one-constructor type NAMED after the reason: every lemma that
    mentions it stops compiling and the Coq error (hence the replay file) spells out file, line and reason"""
    fails = ""
    for i, (k, v) in enumerate(failed):
        if not mine(k):
            continue
        ty = "untranslatable_%d__%s" % (i + 1, re.sub(r"[^A-Za-z0-9]+", "_", v).strip("_"))
        fails += ("(* UNTRANSLATABLE %s: %s *)\nInductive %s : Set := Untranslatable_%d.\nDefinition %s : %s := Untranslatable_%d.\n\n"
                  % (tr.mangle(*k).replace("src_", "", 1), re.sub(r"[^ -~]", "?", v).replace("*)", "* )"), ty, i + 1, tr.mangle(*k), ty, i + 1))
    return fails


def generate():
    BY_MODULE.clear()
    tr = Translator().run()
    units = [Translator(fn, out, prefix, specs, tr).run() for fn, out, prefix, _, specs in UNITS]
    names = [x for t in [tr] + units for k in t.order for x in [t.mangle(*k)] + [L.name for L in t.done[k].loops]]
    assert len(set(names)) == len(names), "name collision"
    failed = sorted(tr.failed.items(), key=lambda kv: (kv[0][0] or "", kv[0][1]))
    out = {}
    for fn in FILES[:len(FILES) - len(UNITS)]:
        mine = [k for k in tr.order if tr.done[k].file == fn]
        uses = sorted({tr.done[d].file for k in mine for d in tr.done[k].deps} - {fn} | ({FILES[0]} if fn != FILES[0] else set()),
                      key=FILES.index)
        head = HEAD % (IPFILE, " and netaddr/strategy/ipv4.py, ipv6.py" if fn == FILES[0] else "", "".join(" Gen." + u[:-2] for u in uses))
        fails = failures(tr, failed, lambda k: (FILE_OF.get(k[1], FILES[0]) if k[0] is None else FILES[0]) == fn)
        text = head + ("\n".join(constants()) + "\n" if fn == FILES[0] else "") + "\n".join(tr.done[k].body_text for k in mine) + (
            "\n" + fails if fails else "")
        text.encode("ascii")
        out[fn] = text
    for t, (fn, ofn, _, req, _) in zip(units, UNITS):
        uses = sorted({d.file for k in t.order for d in t.done[k].depfns} - {ofn}, key=FILES.index)
        fails = failures(t, sorted(t.failed.items(), key=lambda kv: (kv[0][0] or "", kv[0][1])), lambda k: True)
        consts = constants(UNIT_STRATEGY[ofn]) if ofn in UNIT_STRATEGY else []
        consts += [t.consts[c] for c in sorted(t.consts)] + ([UNIT_PREAMBLE[ofn]] if ofn in UNIT_PREAMBLE else [])
        text = HEAD % (fn + "".join(", " + f for _, f in UNIT_STRATEGY.get(ofn, ())), "", req + "".join(" Gen." + u[:-2] for u in uses)) + (
            "From Coq Require Import String Ascii.\n\n" if "Base.PyStr" in req else "") + (
            "\n".join(consts) + "\n" if consts else "") + "\n".join(t.done[k].body_text for k in t.order) + ("\n" + fails if fails else "")
        text.encode("ascii")
        out[ofn] = text
    return out
